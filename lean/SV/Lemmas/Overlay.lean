/-
Lemmas about the C07 model (SV.Overlay): names, listing, Lookup and its caches, whiteouts, opaque
directories, inode numbers, the stat file, and the composition of layers (overlay merge = OCI application).
Core Lean only.
-/
import SV.Model.Overlay

set_option linter.unusedSimpArgs false
set_option linter.unusedVariables false

namespace SV.Overlay

/-! ## Names -/

@[simp] theorem whTarget?_mkWh (t : Str) : whTarget? (mkWh t) = some t := rfl

theorem whTarget?_eq_some {n t : Str} : whTarget? n = some t ↔ n = mkWh t := by
  unfold whTarget? mkWh
  split <;> simp_all

theorem whTarget?_eq_none {n : Str} : whTarget? n = none ↔ isWh n = false := by
  simp [isWh]

@[simp] theorem isWh_mkWh (t : Str) : isWh (mkWh t) = true := rfl

theorem isWh_iff {n : Str} : isWh n = true ↔ ∃ t, n = mkWh t := by
  unfold isWh
  cases h : whTarget? n with
  | none => simp; intro t ht; rw [ht] at h; simp at h
  | some t => simp; exact ⟨t, whTarget?_eq_some.mp h⟩

theorem mkWh_inj {a b : Str} : mkWh a = mkWh b ↔ a = b := by simp [mkWh]

theorem opaqueMarker_eq : opaqueMarker = mkWh (mkWh ".opq".toList) := by decide

theorem isLandmark_iff {n : Str} : isLandmark n = true ↔ n = prefetchLandmark ∨ n = noPrefetchLandmark := by
  simp [isLandmark]

theorem isDots_iff {n : Str} : isDots n = true ↔ n = dot ∨ n = dotdot := by simp [isDots]

theorem landmark_not_wh {n : Str} (h : isLandmark n = true) : isWh n = false := by
  rcases isLandmark_iff.mp h with rfl | rfl <;> decide

theorem landmark_not_dots {n : Str} (h : isLandmark n = true) : isDots n = false := by
  rcases isLandmark_iff.mp h with rfl | rfl <;> decide

theorem wh_not_dots {n : Str} (h : isWh n = true) : isDots n = false := by
  obtain ⟨t, rfl⟩ := isWh_iff.mp h
  simp [isDots, mkWh, dot, dotdot]

theorem wh_not_landmark {n : Str} (h : isWh n = true) : isLandmark n = false := by
  cases hl : isLandmark n with
  | false => rfl
  | true => rw [landmark_not_wh hl] at h; cases h

theorem stateDir_not_wh : isWh stateDirName = false := by decide
theorem stateDir_not_landmark : isLandmark stateDirName = false := by decide
theorem stateDir_not_dots : isDots stateDirName = false := by decide

/-! ## classifyChild -/

theorem isNormal_iff {r : Bool} {n : Str} :
    isNormal r n = true ↔ isDots n = false ∧ (r && isLandmark n) = false ∧ isWh n = false := by
  unfold isNormal classifyChild
  by_cases hd : isDots n = true
  · simp [hd]
  · by_cases hl : (r && isLandmark n) = true
    · simp [hd, hl]
    · simp only [hd, hl]
      cases hw : whTarget? n with
      | none => simp [isWh, hw]
      | some t =>
        have hwt : isWh n = true := by simp [isWh, hw]
        by_cases hm : n = opaqueMarker
        · simp [if_pos hm, hwt]
        · simp [if_neg hm, hwt]

theorem whOf_eq_some {r : Bool} {n t : Str} :
    whOf r n = some t ↔ n = mkWh t ∧ n ≠ opaqueMarker ∧ (r && isLandmark n) = false := by
  unfold whOf classifyChild
  by_cases hd : isDots n = true
  · simp [hd]
    intro h; rw [h] at hd; rw [wh_not_dots (isWh_mkWh t)] at hd; cases hd
  · by_cases hl : (r && isLandmark n) = true
    · simp [hd, hl]
    · simp only [hd, hl]
      cases hw : whTarget? n with
      | none =>
        simp
        intro h; rw [h] at hw; simp at hw
      | some t' =>
        have := whTarget?_eq_some.mp hw
        by_cases hm : n = opaqueMarker
        · simp [hm]
        · simp [hm]
          subst this
          simp [mkWh_inj]

/-! ## getChild / lookupKid -/

theorem getChild_some {cs : List Child} {n : Str} {c : Child} (h : getChild cs n = some c) :
    c ∈ cs ∧ c.name = n := by
  induction cs with
  | nil => simp [getChild] at h
  | cons x xs ih =>
    simp only [getChild] at h
    split at h
    · cases h; simp [*]
    · have := ih h; simp [this]

theorem getChild_none {cs : List Child} {n : Str} : getChild cs n = none ↔ ∀ c ∈ cs, c.name ≠ n := by
  induction cs with
  | nil => simp [getChild]
  | cons x xs ih =>
    simp only [getChild]
    split
    · simp [*]
    · simp [*]

theorem getChild_of_mem {cs : List Child} {c : Child} (hnd : (cs.map (·.name)).Nodup) (hc : c ∈ cs) :
    getChild cs c.name = some c := by
  induction cs with
  | nil => cases hc
  | cons x xs ih =>
    simp only [List.map_cons, List.nodup_cons] at hnd
    simp only [getChild]
    rcases List.mem_cons.mp hc with rfl | hc
    · simp
    · have : x.name ≠ c.name := by
        intro h; apply hnd.1; rw [h]; exact List.mem_map_of_mem hc
      simp [this, ih hnd.2 hc]

/-! ## mapOpt / sortBy -/

theorem mapOpt_some {α β} {f : α → Option β} {l : List α} {r : List β} (h : mapOpt f l = some r) :
    (∀ b, b ∈ r ↔ ∃ a ∈ l, f a = some b) ∧ (∀ a ∈ l, (f a).isSome) := by
  induction l generalizing r with
  | nil => simp [mapOpt] at h; subst h; simp
  | cons a as ih =>
    simp only [mapOpt] at h
    cases hfa : f a with
    | none => simp [hfa] at h
    | some b =>
      cases hr : mapOpt f as with
      | none => simp [hfa, hr] at h
      | some bs =>
        simp [hfa, hr] at h
        subst h
        obtain ⟨ih1, ih2⟩ := ih hr
        constructor
        · intro b'
          simp only [List.mem_cons, ih1]
          constructor
          · rintro (rfl | ⟨a', ha', hf⟩)
            · exact ⟨a, Or.inl rfl, hfa⟩
            · exact ⟨a', Or.inr ha', hf⟩
          · rintro ⟨a', rfl | ha', hf⟩
            · rw [hfa] at hf; cases hf; exact Or.inl rfl
            · exact Or.inr ⟨a', ha', hf⟩
        · intro a' ha'
          rcases List.mem_cons.mp ha' with rfl | ha'
          · simp [hfa]
          · exact ih2 a' ha'

theorem mapOpt_isSome {α β} {f : α → Option β} {l : List α} (h : ∀ a ∈ l, (f a).isSome) :
    (mapOpt f l).isSome := by
  induction l with
  | nil => simp [mapOpt]
  | cons a as ih =>
    have ha := h a (List.mem_cons_self ..)
    have has := ih (fun x hx => h x (List.mem_cons_of_mem _ hx))
    simp only [mapOpt]
    cases hfa : f a with
    | none => simp [hfa] at ha
    | some b =>
      cases hr : mapOpt f as with
      | none => simp [hr] at has
      | some bs => simp

theorem mem_insertBy {α} (le : α → α → Bool) (x y : α) (l : List α) :
    y ∈ insertBy le x l ↔ y = x ∨ y ∈ l := by
  induction l with
  | nil => simp [insertBy]
  | cons z zs ih =>
    simp only [insertBy]
    split
    · simp
    · simp [ih, or_left_comm]

theorem mem_sortBy {α} (le : α → α → Bool) (y : α) (l : List α) : y ∈ sortBy le l ↔ y ∈ l := by
  induction l with
  | nil => simp [sortBy]
  | cons z zs ih =>
    simp only [sortBy, List.foldr_cons] at ih ⊢
    rw [mem_insertBy, ih]; simp

/-! ## Listing -/

theorem mem_normals {d : Dir} {c : Child} :
    c ∈ normals d ↔ c ∈ d.children ∧ isNormal d.isRoot c.name = true := by
  simp [normals]

theorem hasNormal_iff {d : Dir} {n : Str} :
    hasNormal d n = true ↔ ∃ c ∈ d.children, c.name = n ∧ isNormal d.isRoot c.name = true := by
  simp only [hasNormal, List.any_eq_true, mem_normals, beq_iff_eq]
  constructor
  · rintro ⟨c, ⟨hc, hn⟩, h⟩; exact ⟨c, hc, h, hn⟩
  · rintro ⟨c, hc, h, hn⟩; exact ⟨c, ⟨hc, hn⟩, h⟩

theorem badTarget_false_iff {r : Bool} {t : Str} :
    badTarget r t = false ↔ t ≠ [] ∧ isDots t = false ∧ isWh t = false ∧ (r && isLandmark t) = false := by
  simp [badTarget, and_assoc]

theorem mem_liveWhs {d : Dir} {t : Str} {c : Child} :
    (t, c) ∈ liveWhs d ↔ c ∈ d.children ∧ whOf d.isRoot c.name = some t ∧
      badTarget d.isRoot t = false ∧ hasNormal d t = false := by
  simp only [liveWhs, List.mem_filterMap]
  constructor
  · rintro ⟨c', hc', h⟩
    cases hw : whOf d.isRoot c'.name with
    | none => simp [hw] at h
    | some t' =>
      simp only [hw] at h
      by_cases hb : badTarget d.isRoot t' = true
      · simp [hb] at h
      · by_cases hn : hasNormal d t' = true
        · simp [hb, hn] at h
        · simp [hb, hn] at h
          obtain ⟨rfl, rfl⟩ := h
          exact ⟨hc', hw, by simpa using hb, by simpa using hn⟩
  · rintro ⟨hc, hw, hb, hn⟩
    exact ⟨c, hc, by simp [hw, hb, hn]⟩

/-- What `readdir` lists: the two dot entries, every normal child, and every whiteout whose target is
not the name of a normal child. -/
theorem mem_readdir {d : Dir} {ents : List DirEnt} (h : readdir d = some ents) (e : DirEnt) :
    e ∈ ents ↔ e ∈ dotEnts ∨
      (∃ c ∈ d.children, isNormal d.isRoot c.name = true ∧ normalEnt d.base c = some e) ∨
      (∃ c ∈ d.children, ∃ t, whOf d.isRoot c.name = some t ∧ badTarget d.isRoot t = false ∧
        hasNormal d t = false ∧ whEnt d.base t c = some e) := by
  unfold readdir readdirWith at h
  cases hn : mapOpt (normalEnt d.base) (normals d) with
  | none => simp [hn] at h
  | some ns =>
    cases hw : mapOpt (fun p => whEnt d.base p.1 p.2) (liveWhs d) with
    | none => simp [hn, hw] at h
    | some ws =>
      simp [hn, hw] at h
      subst h
      rw [mem_sortBy]
      simp only [List.mem_append, (mapOpt_some hn).1, (mapOpt_some hw).1, mem_normals]
      constructor
      · rintro (⟨c, ⟨hc, hnm⟩, he⟩ | hdot | ⟨⟨t, c⟩, hp, he⟩)
        · exact Or.inr (Or.inl ⟨c, hc, hnm, he⟩)
        · exact Or.inl hdot
        · obtain ⟨hc, hwo, hb, hno⟩ := mem_liveWhs.mp hp
          exact Or.inr (Or.inr ⟨c, hc, t, hwo, hb, hno, he⟩)
      · rintro (hdot | ⟨c, hc, hnm, he⟩ | ⟨c, hc, t, hwo, hb, hno, he⟩)
        · exact Or.inr (Or.inl hdot)
        · exact Or.inl ⟨c, ⟨hc, hnm⟩, he⟩
        · exact Or.inr (Or.inr ⟨(t, c), mem_liveWhs.mpr ⟨hc, hwo, hb, hno⟩, he⟩)

theorem readdir_some_normal {d : Dir} {ents : List DirEnt} (h : readdir d = some ents) {c : Child}
    (hc : c ∈ d.children) (hn : isNormal d.isRoot c.name = true) : (normalEnt d.base c).isSome := by
  unfold readdir readdirWith at h
  cases hn' : mapOpt (normalEnt d.base) (normals d) with
  | none => simp [hn'] at h
  | some ns => exact (mapOpt_some hn').2 c (mem_normals.mpr ⟨hc, hn⟩)

theorem readdir_some_wh {d : Dir} {ents : List DirEnt} (h : readdir d = some ents) {c : Child} {t : Str}
    (hc : c ∈ d.children) (hw : whOf d.isRoot c.name = some t) (hb : badTarget d.isRoot t = false)
    (hno : hasNormal d t = false) : (whEnt d.base t c).isSome := by
  unfold readdir readdirWith at h
  cases hn' : mapOpt (normalEnt d.base) (normals d) with
  | none => simp [hn'] at h
  | some ns =>
    cases hw' : mapOpt (fun p => whEnt d.base p.1 p.2) (liveWhs d) with
    | none => simp [hn', hw'] at h
    | some ws => exact (mapOpt_some hw').2 (t, c) (mem_liveWhs.mpr ⟨hc, hw, hb, hno⟩)

/-- Every id in range ⇒ `readdir` does not fail. -/
theorem readdir_isSome {d : Dir} (h : ∀ c ∈ d.children, c.id ≤ maxU32 - 3) : (readdir d).isSome := by
  have h1 : (mapOpt (normalEnt d.base) (normals d)).isSome := by
    apply mapOpt_isSome
    intro c hc
    have := h c (mem_normals.mp hc).1
    simp [normalEnt, inodeOfID, Nat.not_lt.mpr this]
  have h2 : (mapOpt (fun p => whEnt d.base p.1 p.2) (liveWhs d)).isSome := by
    apply mapOpt_isSome
    rintro ⟨t, c⟩ hc
    have := h c (mem_liveWhs.mp hc).1
    simp [whEnt, inodeOfID, Nat.not_lt.mpr this]
  unfold readdir readdirWith
  cases hn : mapOpt (normalEnt d.base) (normals d) with
  | none => simp [hn] at h1
  | some ns =>
    cases hw : mapOpt (fun p => whEnt d.base p.1 p.2) (liveWhs d) with
    | none => simp [hw] at h2
    | some ws => simp

theorem entNamed_iff {ents : List DirEnt} {n : Str} : entNamed ents n = true ↔ ∃ e ∈ ents, e.name = n := by
  simp [entNamed]

theorem dots_listed {d : Dir} {ents : List DirEnt} (h : readdir d = some ents) {n : Str}
    (hn : isDots n = true) : entNamed ents n = true := by
  rw [entNamed_iff]
  rcases isDots_iff.mp hn with rfl | rfl
  · exact ⟨⟨dot, S_IFDIR, 0⟩, (mem_readdir h _).mpr (Or.inl (by simp [dotEnts])), rfl⟩
  · exact ⟨⟨dotdot, S_IFDIR, 0⟩, (mem_readdir h _).mpr (Or.inl (by simp [dotEnts])), rfl⟩

theorem mkWh_ne_marker {n : Str} (h : isWh n = false) : mkWh n ≠ opaqueMarker := by
  intro he
  rw [opaqueMarker_eq, mkWh_inj] at he
  rw [he] at h; simp at h

theorem whOf_mkWh {r : Bool} {n : Str} (h : isWh n = false) : whOf r (mkWh n) = some n := by
  rw [whOf_eq_some]
  refine ⟨rfl, mkWh_ne_marker h, ?_⟩
  simp [wh_not_landmark (isWh_mkWh n)]

/-- A name that passes Lookup's first two checks and is not listed has neither a child nor a whiteout. -/
theorem not_listed_no_child {d : Dir} {ents : List DirEnt} (h : readdir d = some ents) {n : Str}
    (hne : n ≠ []) (hl : (d.isRoot && isLandmark n) = false) (hw : isWh n = false)
    (hnl : entNamed ents n = false) :
    getChild d.children n = none ∧ getChild d.children (mkWh n) = none := by
  have hnd : isDots n = false := by
    cases hd : isDots n with
    | false => rfl
    | true => rw [dots_listed h hd] at hnl; cases hnl
  have hnl' : ∀ e ∈ ents, e.name ≠ n := by
    intro e he hn
    have : entNamed ents n = true := entNamed_iff.mpr ⟨e, he, hn⟩
    rw [this] at hnl; cases hnl
  have hnorm : isNormal d.isRoot n = true := isNormal_iff.mpr ⟨hnd, hl, hw⟩
  have hbad : badTarget d.isRoot n = false := badTarget_false_iff.mpr ⟨hne, hnd, hw, hl⟩
  have h1 : getChild d.children n = none := by
    cases hg : getChild d.children n with
    | none => rfl
    | some c =>
      obtain ⟨hc, hcn⟩ := getChild_some hg
      have hs := readdir_some_normal h hc (hcn ▸ hnorm)
      cases he : normalEnt d.base c with
      | none => simp [he] at hs
      | some e =>
        have hmem : e ∈ ents := (mem_readdir h e).mpr (Or.inr (Or.inl ⟨c, hc, hcn ▸ hnorm, he⟩))
        have : e.name = n := by
          simp only [normalEnt, Option.map_eq_some_iff] at he
          obtain ⟨ino, _, rfl⟩ := he; exact hcn
        exact absurd this (hnl' e hmem)
  refine ⟨h1, ?_⟩
  cases hg : getChild d.children (mkWh n) with
  | none => rfl
  | some w =>
    obtain ⟨hc, hcn⟩ := getChild_some hg
    have hwo : whOf d.isRoot w.name = some n := by rw [hcn]; exact whOf_mkWh hw
    have hno : hasNormal d n = false := by
      cases hh : hasNormal d n with
      | false => rfl
      | true =>
        obtain ⟨c, hc', hcn', _⟩ := hasNormal_iff.mp hh
        have := (getChild_none.mp h1) c hc'
        exact absurd hcn' this
    have hs := readdir_some_wh h hc hwo hbad hno
    cases he : whEnt d.base n w with
    | none => simp [he] at hs
    | some e =>
      have hmem : e ∈ ents := (mem_readdir h e).mpr (Or.inr (Or.inr ⟨w, hc, n, hwo, hbad, hno, he⟩))
      have : e.name = n := by
        simp only [whEnt, Option.map_eq_some_iff] at he
        obtain ⟨ino, _, rfl⟩ := he; rfl
      exact absurd this (hnl' e hmem)

theorem readdirSt_ans {d : Dir} {s : NodeSt} (hi : Inv d s) : (readdirSt d s).2 = readdir d := by
  unfold readdirSt
  cases hm : s.memo with
  | some ents => simp [hi.1 ents hm]
  | none => cases hr : readdir d <;> simp

theorem readdirSt_inv {d : Dir} {s : NodeSt} (hi : Inv d s) : Inv d (readdirSt d s).1 := by
  unfold readdirSt
  cases hm : s.memo with
  | some ents => simpa using hi
  | none =>
    cases hr : readdir d with
    | none => simpa using hi
    | some ents =>
      refine ⟨?_, hi.2⟩
      intro e he; simp at he; subst he; exact hr

theorem lookupSt_inv {d : Dir} {s : NodeSt} (hi : Inv d s) (n : Str) : Inv d (lookupSt d s n).1 := by
  unfold lookupSt
  repeat' split
  all_goals first | exact hi | exact readdirSt_inv hi

/-- Neither the memoised listing nor go-fuse's child map changes what Lookup answers. -/
theorem lookupSt_stable {d : Dir} {s : NodeSt} (hi : Inv d s) (n : Str) (hne : n ≠ []) :
    (lookupSt d s n).2.stable = (lookupSt d {} n).2 := by
  unfold lookupSt
  by_cases h1 : (d.isRoot && isLandmark n) = true
  · simp [h1, LRes.stable]
  by_cases h2 : isWh n = true
  · simp [h1, h2, LRes.stable]
  by_cases h3 : (d.isRoot && n == stateDirName) = true
  · simp [h1, h2, h3, LRes.stable]
  simp only [h1, h2, h3, if_false, Bool.false_eq_true]
  have hk0 : lookupKid ({} : NodeSt).kids n = none := rfl
  rw [hk0]
  have pureNode : ∀ c, (nodeRes d.base c).stable = nodeRes d.base c := by
    intro c; unfold nodeRes; split <;> rfl
  cases hk : lookupKid s.kids n with
  | some cw =>
    obtain ⟨c, w⟩ := cw
    cases w with
    | false =>
      have := (hi.2 n c false hk).1 rfl
      simp [this, pureNode]
    | true =>
      obtain ⟨hg1, hg2⟩ := (hi.2 n c true hk).2 rfl
      simp only [hg1, hg2]
      cases inodeOfID d.base c.id <;> rfl
  | none =>
    simp only
    cases hm : s.memo with
    | none =>
      simp only [Bool.false_eq_true, if_false]
      cases hg1 : getChild d.children n with
      | some c => simp [pureNode]
      | none =>
        cases hg2 : getChild d.children (mkWh n) with
        | some w => simp only; cases inodeOfID d.base w.id <;> rfl
        | none => rfl
    | some ents =>
      have hr := hi.1 ents hm
      by_cases hl : entNamed ents n = true
      · simp only [hl, Bool.not_true, Bool.false_eq_true, if_false]
        cases hg1 : getChild d.children n with
        | some c => simp [pureNode]
        | none =>
          cases hg2 : getChild d.children (mkWh n) with
          | some w => simp only; cases inodeOfID d.base w.id <;> rfl
          | none => rfl
      · have hl' : entNamed ents n = false := by simpa using hl
        obtain ⟨hg1, hg2⟩ := not_listed_no_child hr hne (by simpa using h1) (by simpa using h2) hl'
        simp [hl', hg1, hg2, LRes.stable]

theorem adopt_inv {d : Dir} {s : NodeSt} (hi : Inv d s) (n : Str) (r : LRes) : Inv d (adopt d s n r) := by
  unfold adopt
  have key : ∀ (c : Child) (w : Bool),
      ((w = false → getChild d.children n = some c) ∧
       (w = true → getChild d.children n = none ∧ getChild d.children (mkWh n) = some c)) →
      Inv d { s with kids := (n, c, w) :: s.kids } := by
    intro c w hcw
    refine ⟨hi.1, ?_⟩
    intro n' c' w' hl
    simp only [lookupKid] at hl
    split at hl
    · rename_i heq
      cases hl; subst heq; exact hcw
    · exact hi.2 n' c' w' hl
  cases r with
  | node id mode ino rdev =>
    simp only
    cases hg : getChild d.children n with
    | none => exact hi
    | some c =>
      simp only
      split
      · exact key c false ⟨fun _ => hg, fun h => (by cases h)⟩
      · exact hi
  | whiteout id amode ino rdev =>
    simp only
    cases hg : getChild d.children n with
    | some c => exact hi
    | none =>
      cases hg2 : getChild d.children (mkWh n) with
      | none => exact hi
      | some w =>
        simp only
        split
        · exact key w true ⟨fun h => (by cases h), fun _ => ⟨hg, hg2⟩⟩
        · exact hi
  | _ => exact hi

theorem stepOp_inv {d : Dir} {s : NodeSt} (hi : Inv d s) (o : Op) : Inv d (stepOp d s o).1 := by
  cases o with
  | readdir => exact readdirSt_inv hi
  | lookup n ad =>
    simp only [stepOp]
    split
    · exact adopt_inv (lookupSt_inv hi n) _ _
    · exact lookupSt_inv hi n

theorem stepOp_ans {d : Dir} {s : NodeSt} (hi : Inv d s) (o : Op) (hv : o.valid = true) :
    (stepOp d s o).2.stable = pureAns d o := by
  cases o with
  | readdir => simp [stepOp, Ans.stable, pureAns, readdirSt_ans hi]
  | lookup n ad =>
    have hne : n ≠ [] := by simpa [Op.valid] using hv
    simp [stepOp, Ans.stable, pureAns, lookupSt_stable hi n hne]

theorem inv_init (d : Dir) : Inv d {} := by
  refine ⟨?_, ?_⟩
  · intro ents h; cases h
  · intro n c w h; simp [lookupKid] at h

theorem run_stable {d : Dir} (ops : List Op) (hv : ∀ o ∈ ops, o.valid = true) : ∀ {s : NodeSt}, Inv d s →
    (run d s ops).map Ans.stable = ops.map (pureAns d) := by
  induction ops with
  | nil => intro s _; rfl
  | cons o os ih =>
    intro s hi
    simp only [run, List.map_cons]
    rw [stepOp_ans hi o (hv o (List.mem_cons_self ..)),
      ih (fun o' ho' => hv o' (List.mem_cons_of_mem _ ho')) (stepOp_inv hi o)]

theorem lookupPure_eq (d : Dir) (n : Str) :
    lookupPure d n =
      if (d.isRoot && isLandmark n) = true then .enoent
      else if isWh n = true then .enoent
      else if (d.isRoot && n == stateDirName) = true then .state stateDirMode (inodeOfState d.base)
      else match getChild d.children n with
        | some c => nodeRes d.base c
        | none =>
          match getChild d.children (mkWh n) with
          | some w =>
            (match inodeOfID d.base w.id with
             | some ino => .whiteout w.id S_IFCHR ino 0
             | none => .eio)
          | none => .enoent := by
  unfold lookupPure lookupSt
  have hk0 : lookupKid ({} : NodeSt).kids n = none := rfl
  rw [hk0]
  by_cases h1 : (d.isRoot && isLandmark n) = true
  · simp [h1]
  by_cases h2 : isWh n = true
  · simp [h1, h2]
  by_cases h3 : (d.isRoot && n == stateDirName) = true
  · simp [h1, h2, h3]
  simp only [h1, h2, h3, if_false, Bool.false_eq_true]
  cases getChild d.children n with
  | some c => rfl
  | none =>
    cases getChild d.children (mkWh n) with
    | some w => rfl
    | none => rfl

theorem normalEnt_eq {b : Nat} {c : Child} {e : DirEnt} (h : normalEnt b c = some e) :
    e.name = c.name ∧ e.mode = c.mode ∧ inodeOfID b c.id = some e.ino := by
  simp only [normalEnt, Option.map_eq_some_iff] at h
  obtain ⟨ino, hi, rfl⟩ := h
  exact ⟨rfl, rfl, hi⟩

theorem whEnt_eq {b : Nat} {t : Str} {c : Child} {e : DirEnt} (h : whEnt b t c = some e) :
    e.name = t ∧ e.mode = S_IFCHR ∧ inodeOfID b c.id = some e.ino := by
  simp only [whEnt, Option.map_eq_some_iff] at h
  obtain ⟨ino, hi, rfl⟩ := h
  exact ⟨rfl, rfl, hi⟩

theorem S_IFCHR_type : S_IFCHR &&& S_IFMT = S_IFCHR := by decide

/-- listed ⇒ lookup succeeds with the same inode and type. -/
theorem listed_lookup {d : Dir} {ents : List DirEnt} (hnd : NoDupNames d)
    (h : readdir d = some ents) {n : Str} (hpl : Plain d n) {e : DirEnt} (he : e ∈ ents) (hen : e.name = n) :
    (lookupPure d n).ok = true ∧ (lookupPure d n).ino? = some e.ino ∧
      (lookupPure d n).stype = e.mode &&& S_IFMT := by
  rcases (mem_readdir h e).mp he with hdot | ⟨c, hc, hnorm, hce⟩ | ⟨c, hc, t, hwo, hbt, hno, hce⟩
  · exfalso
    simp only [dotEnts, List.mem_cons, List.mem_nil_iff, or_false] at hdot
    have : isDots n = true := by
      rcases hdot with rfl | rfl <;> (rw [← hen]; decide)
    rw [hpl.2.1] at this; cases this
  · obtain ⟨h1, h2, h3⟩ := normalEnt_eq hce
    obtain ⟨_, hl, hw⟩ := isNormal_iff.mp hnorm
    have hcn : c.name = n := by rw [← h1, hen]
    rw [hcn] at hl hw
    have hg : getChild d.children n = some c := hcn ▸ getChild_of_mem hnd hc
    rw [lookupPure_eq]
    simp [hl, hw, hpl.2.2, hg, nodeRes, h3, LRes.ok, LRes.ino?, LRes.stype, h2]
  · obtain ⟨h1, h2, h3⟩ := whEnt_eq hce
    obtain ⟨_, _, hw, hl⟩ := badTarget_false_iff.mp hbt
    have htn : t = n := by rw [← h1, hen]
    subst htn
    obtain ⟨hcn, _, _⟩ := whOf_eq_some.mp hwo
    have hg2 : getChild d.children (mkWh t) = some c := hcn ▸ getChild_of_mem hnd hc
    have hg1 : getChild d.children t = none := by
      cases hg : getChild d.children t with
      | none => rfl
      | some c' =>
        obtain ⟨hc', hcn'⟩ := getChild_some hg
        have : hasNormal d t = true :=
          hasNormal_iff.mpr ⟨c', hc', hcn', by rw [hcn']; exact isNormal_iff.mpr ⟨hpl.2.1, hl, hw⟩⟩
        rw [this] at hno; cases hno
    rw [lookupPure_eq]
    simp [hl, hw, hpl.2.2, hg1, hg2, h3, LRes.ok, LRes.ino?, LRes.stype, h2, S_IFCHR_type]

/-- lookup succeeds ⇒ listed . -/
theorem lookup_listed {d : Dir} {ents : List DirEnt} (h : readdir d = some ents) {n : Str}
    (hpl : Plain d n) (hok : (lookupPure d n).ok = true) : ∃ e ∈ ents, e.name = n := by
  rw [lookupPure_eq] at hok
  by_cases h1 : (d.isRoot && isLandmark n) = true
  · simp [h1, LRes.ok] at hok
  by_cases h2 : isWh n = true
  · simp [h1, h2, LRes.ok] at hok
  simp only [h1, h2, hpl.2.2, if_false, Bool.false_eq_true] at hok
  have h1' : (d.isRoot && isLandmark n) = false := by simpa using h1
  have h2' : isWh n = false := by simpa using h2
  have hnorm : isNormal d.isRoot n = true := isNormal_iff.mpr ⟨hpl.2.1, h1', h2'⟩
  have hbad : badTarget d.isRoot n = false := badTarget_false_iff.mpr ⟨hpl.1, hpl.2.1, h2', h1'⟩
  cases hg1 : getChild d.children n with
  | some c =>
    obtain ⟨hc, hcn⟩ := getChild_some hg1
    have hs := readdir_some_normal h hc (hcn ▸ hnorm)
    cases hce : normalEnt d.base c with
    | none => simp [hce] at hs
    | some e =>
      exact ⟨e, (mem_readdir h e).mpr (Or.inr (Or.inl ⟨c, hc, hcn ▸ hnorm, hce⟩)),
        (normalEnt_eq hce).1.trans hcn⟩
  | none =>
    cases hg2 : getChild d.children (mkWh n) with
    | none => simp [hg1, hg2, LRes.ok] at hok
    | some w =>
      obtain ⟨hc, hcn⟩ := getChild_some hg2
      have hwo : whOf d.isRoot w.name = some n := by rw [hcn]; exact whOf_mkWh h2'
      have hno : hasNormal d n = false := by
        cases hh : hasNormal d n with
        | false => rfl
        | true =>
          obtain ⟨c, hc', hcn', _⟩ := hasNormal_iff.mp hh
          exact absurd hcn' ((getChild_none.mp hg1) c hc')
      have hs := readdir_some_wh h hc hwo hbad hno
      cases hce : whEnt d.base n w with
      | none => simp [hce] at hs
      | some e =>
        exact ⟨e, (mem_readdir h e).mpr (Or.inr (Or.inr ⟨w, hc, n, hwo, hbad, hno, hce⟩)), (whEnt_eq hce).1⟩

/-! ## Whiteouts -/

theorem dot_not_landmark : isLandmark dot = false ∧ isLandmark dotdot = false := by decide
theorem dot_not_wh : isWh dot = false ∧ isWh dotdot = false := by decide

/-- `.wh.n` without a real `n`: exactly one entry named `n` is listed, a character device carrying the
inode of the `.wh.` entry; Lookup returns a whiteout node with that inode, and its Getattr says
S_IFCHR with device 0/0. -/
theorem whiteout_listed {d : Dir} {ents : List DirEnt} (hnd : NoDupNames d) (h : readdir d = some ents)
    {n : Str} (hne : n ≠ []) (hd : isDots n = false) (hl : (d.isRoot && isLandmark n) = false)
    (hw : isWh n = false) (hs : (d.isRoot && n == stateDirName) = false)
    {w : Child} (hg2 : getChild d.children (mkWh n) = some w) (hg1 : getChild d.children n = none) :
    ∃ ino, inodeOfID d.base w.id = some ino ∧ (⟨n, S_IFCHR, ino⟩ : DirEnt) ∈ ents ∧
      (∀ e ∈ ents, e.name = n → e = ⟨n, S_IFCHR, ino⟩) ∧
      lookupPure d n = .whiteout w.id S_IFCHR ino 0 ∧
      getattrOf (lookupPure d n) = some (S_IFCHR, ino, 0) := by
  obtain ⟨hc, hcn⟩ := getChild_some hg2
  have hwo : whOf d.isRoot w.name = some n := by rw [hcn]; exact whOf_mkWh hw
  have hno : hasNormal d n = false := by
    cases hh : hasNormal d n with
    | false => rfl
    | true =>
      obtain ⟨c, hc', hcn', _⟩ := hasNormal_iff.mp hh
      exact absurd hcn' ((getChild_none.mp hg1) c hc')
  have hbad : badTarget d.isRoot n = false := badTarget_false_iff.mpr ⟨hne, hd, hw, hl⟩
  have hsome := readdir_some_wh h hc hwo hbad hno
  cases hce : whEnt d.base n w with
  | none => simp [hce] at hsome
  | some e0 =>
    obtain ⟨e1, e2, e3⟩ := whEnt_eq hce
    have he0 : e0 = ⟨n, S_IFCHR, e0.ino⟩ := by
      cases e0 with | mk a b c => simp only [DirEnt.mk.injEq]; exact ⟨e1, e2, trivial⟩
    refine ⟨e0.ino, e3, ?_, ?_, ?_⟩
    · rw [← he0]; exact (mem_readdir h e0).mpr (Or.inr (Or.inr ⟨w, hc, n, hwo, hbad, hno, hce⟩))
    · intro e he hen
      rcases (mem_readdir h e).mp he with hdot | ⟨c, hc', hnorm, hce'⟩ | ⟨c, hc', t, hwo', _, _, hce'⟩
      · exfalso
        simp only [dotEnts, List.mem_cons, List.mem_nil_iff, or_false] at hdot
        have : isDots n = true := by rcases hdot with rfl | rfl <;> (rw [← hen]; decide)
        rw [hd] at this; cases this
      · exfalso
        have := (normalEnt_eq hce').1
        exact (getChild_none.mp hg1) c hc' (this ▸ hen)
      · obtain ⟨f1, f2, f3⟩ := whEnt_eq hce'
        have htn : t = n := f1 ▸ hen
        subst htn
        have hcw : c = w := by
          have h1 := getChild_of_mem hnd hc'
          rw [(whOf_eq_some.mp hwo').1, hg2] at h1
          exact (Option.some.inj h1).symm
        subst hcw
        have hi : e.ino = e0.ino := by rw [e3] at f3; exact (Option.some.inj f3).symm
        cases e with | mk a b c' => simp only [DirEnt.mk.injEq]; exact ⟨hen, f2, hi⟩
    · have : lookupPure d n = .whiteout w.id S_IFCHR e0.ino 0 := by
        rw [lookupPure_eq]; simp [hl, hw, hs, hg1, hg2, e3]
      rw [this]; exact ⟨rfl, rfl⟩

/-- A real `n` is listed as itself whether or not `.wh.n` exists too. -/
theorem real_listed {d : Dir} {ents : List DirEnt} (hnd : NoDupNames d) (h : readdir d = some ents)
    {n : Str} (hd : isDots n = false) (hl : (d.isRoot && isLandmark n) = false) (hw : isWh n = false)
    {c : Child} (hg1 : getChild d.children n = some c) :
    ∃ ino, inodeOfID d.base c.id = some ino ∧ (⟨n, c.mode, ino⟩ : DirEnt) ∈ ents ∧
      (∀ e ∈ ents, e.name = n → e = ⟨n, c.mode, ino⟩) := by
  obtain ⟨hc, hcn⟩ := getChild_some hg1
  have hnorm : isNormal d.isRoot c.name = true := by rw [hcn]; exact isNormal_iff.mpr ⟨hd, hl, hw⟩
  have hsome := readdir_some_normal h hc hnorm
  cases hce : normalEnt d.base c with
  | none => simp [hce] at hsome
  | some e0 =>
    obtain ⟨e1, e2, e3⟩ := normalEnt_eq hce
    have he0 : e0 = ⟨n, c.mode, e0.ino⟩ := by
      cases e0 with | mk a b c' => simp only [DirEnt.mk.injEq]; exact ⟨e1.trans hcn, e2, trivial⟩
    refine ⟨e0.ino, e3, ?_, ?_⟩
    · rw [← he0]; exact (mem_readdir h e0).mpr (Or.inr (Or.inl ⟨c, hc, hnorm, hce⟩))
    · intro e he hen
      rcases (mem_readdir h e).mp he with hdot | ⟨c', hc', _, hce'⟩ | ⟨c', hc', t, hwo', _, hno, hce'⟩
      · exfalso
        simp only [dotEnts, List.mem_cons, List.mem_nil_iff, or_false] at hdot
        have : isDots n = true := by rcases hdot with rfl | rfl <;> (rw [← hen]; decide)
        rw [hd] at this; cases this
      · obtain ⟨f1, f2, f3⟩ := normalEnt_eq hce'
        have hcc : c' = c := by
          have h1 := getChild_of_mem hnd hc'
          rw [← f1, hen, hg1] at h1
          exact (Option.some.inj h1).symm
        subst hcc
        have hi : e.ino = e0.ino := by rw [e3] at f3; exact (Option.some.inj f3).symm
        cases e with | mk a b c'' => simp only [DirEnt.mk.injEq]; exact ⟨hen, f2, hi⟩
      · exfalso
        have htn : t = n := (whEnt_eq hce').1 ▸ hen
        subst htn
        have : hasNormal d t = true := hasNormal_iff.mpr ⟨c, hc, hcn, hnorm⟩
        rw [this] at hno; cases hno

/-- Neither `n` nor `.wh.n`: nothing named `n` is listed. -/
theorem absent_not_listed {d : Dir} {ents : List DirEnt} (h : readdir d = some ents)
    {n : Str} (hd : isDots n = false) (hw : isWh n = false)
    (hg1 : getChild d.children n = none) (hg2 : getChild d.children (mkWh n) = none) :
    ∀ e ∈ ents, e.name ≠ n := by
  intro e he hen
  rcases (mem_readdir h e).mp he with hdot | ⟨c, hc, _, hce⟩ | ⟨c, hc, t, hwo, _, _, hce⟩
  · simp only [dotEnts, List.mem_cons, List.mem_nil_iff, or_false] at hdot
    have : isDots n = true := by rcases hdot with rfl | rfl <;> (rw [← hen]; decide)
    rw [hd] at this; cases this
  · exact (getChild_none.mp hg1) c hc ((normalEnt_eq hce).1 ▸ hen)
  · have htn : t = n := (whEnt_eq hce).1 ▸ hen
    subst htn
    exact (getChild_none.mp hg2) c hc (whOf_eq_some.mp hwo).1

/-! ## Hidden names -/

/-- Every listed entry other than the two synthetic dot entries comes from a child, and a whiteout entry
never carries an empty name, a dot name, a `.wh.` name or (in the root) a landmark name. -/
theorem listed_wh_target_valid {d : Dir} {ents : List DirEnt} (h : readdir d = some ents)
    {e : DirEnt} (he : e ∈ ents) :
    e ∈ dotEnts ∨ (∃ c ∈ d.children, c.name = e.name ∧ isNormal d.isRoot c.name = true) ∨
      (badTarget d.isRoot e.name = false ∧ ∃ c ∈ d.children, c.name = mkWh e.name) := by
  rcases (mem_readdir h e).mp he with hdot | ⟨c, hc, hnorm, hce⟩ | ⟨c, hc, t, hwo, hbt, _, hce⟩
  · exact Or.inl hdot
  · exact Or.inr (Or.inl ⟨c, hc, ((normalEnt_eq hce).1).symm, hnorm⟩)
  · rw [← (whEnt_eq hce).1] at hbt hwo
    exact Or.inr (Or.inr ⟨hbt, c, hc, (whOf_eq_some.mp hwo).1⟩)

/-- A whiteout whose target Lookup never resolves yields no entry: nothing named like the target is
listed unless it is one of the two dot entries or a real child of that name. -/
theorem unresolvable_target_not_listed {d : Dir} {ents : List DirEnt} (h : readdir d = some ents) {t : Str}
    (hb : badTarget d.isRoot t = true) {e : DirEnt} (he : e ∈ ents) (hen : e.name = t) :
    e ∈ dotEnts ∨ ∃ c ∈ d.children, c.name = t ∧ isNormal d.isRoot c.name = true := by
  rcases listed_wh_target_valid h he with hd | ⟨c, hc, hcn, hn⟩ | ⟨hbf, _⟩
  · exact Or.inl hd
  · exact Or.inr ⟨c, hc, hcn.trans hen, hn⟩
  · rw [hen, hb] at hbf; cases hbf

theorem listed_names_clean {d : Dir} {ents : List DirEnt} (h : readdir d = some ents)
    {e : DirEnt} (he : e ∈ ents) :
    isWh e.name = false ∧ e.name ≠ opaqueMarker ∧ (d.isRoot && isLandmark e.name) = false := by
  have key : isWh e.name = false ∧ (d.isRoot && isLandmark e.name) = false := by
    rcases (mem_readdir h e).mp he with hdot | ⟨c, hc, hnorm, hce⟩ | ⟨c, hc, t, hwo, hbt, _, hce⟩
    · simp only [dotEnts, List.mem_cons, List.mem_nil_iff, or_false] at hdot
      rcases hdot with rfl | rfl
      · simp [dot_not_wh.1, dot_not_landmark.1]
      · simp [dot_not_wh.2, dot_not_landmark.2]
    · obtain ⟨_, hl, hw⟩ := isNormal_iff.mp hnorm
      rw [(normalEnt_eq hce).1]; exact ⟨hw, hl⟩
    · rw [(whEnt_eq hce).1]; exact ⟨(badTarget_false_iff.mp hbt).2.2.1, (badTarget_false_iff.mp hbt).2.2.2⟩
  refine ⟨key.1, ?_, key.2⟩
  intro hm
  have : isWh e.name = true := by rw [hm]; decide
  rw [key.1] at this; cases this

theorem toc_not_listed {d : Dir} {ents : List DirEnt} (p : Bool) (src : List Str)
    (hsrc : ∀ c ∈ d.children, c.name ∈ builderRootNames p src) (hnw : mkWh tocTarName ∉ src)
    (h : readdir d = some ents) : ∀ e ∈ ents, e.name ≠ tocTarName := by
  have hb : ∀ n, n ∈ builderRootNames p src → n ≠ tocTarName ∧ (n = mkWh tocTarName → False) := by
    intro n hn
    simp only [builderRootNames, List.mem_cons, List.mem_filter] at hn
    rcases hn with rfl | ⟨hn, hf⟩
    · cases p <;> exact ⟨by decide, by decide⟩
    · simp only [Bool.and_eq_true, Bool.not_eq_true', bne_iff_ne, ne_eq] at hf
      exact ⟨hf.2, fun h => hnw (h ▸ hn)⟩
  intro e he hen
  rcases (mem_readdir h e).mp he with hdot | ⟨c, hc, _, hce⟩ | ⟨c, hc, t, hwo, _, _, hce⟩
  · simp only [dotEnts, List.mem_cons, List.mem_nil_iff, or_false] at hdot
    rcases hdot with rfl | rfl <;> exact absurd hen (by decide)
  · exact (hb c.name (hsrc c hc)).1 ((normalEnt_eq hce).1 ▸ hen)
  · have htn : t = tocTarName := (whEnt_eq hce).1 ▸ hen
    subst htn
    exact (hb c.name (hsrc c hc)).2 (whOf_eq_some.mp hwo).1

/-! ## Opaque directories -/

theorem isOpaque_iff {d : Dir} : isOpaque d = true ↔ ∃ c ∈ d.children, c.name = opaqueMarker := by
  unfold isOpaque
  cases hg : getChild d.children opaqueMarker with
  | none => simp; exact fun c hc => (getChild_none.mp hg) c hc
  | some c => simp; exact ⟨c, getChild_some hg⟩

theorem blen_y : blen opaqueXattrValue = 1 := by decide

/-- What `Getxattr` answers for one of the configured opaque xattr names on an opaque directory. -/
theorem getxattr_opaque {om : OpaqueMode} {d : Dir} {x : Str} (hx : x ∈ opaqueXattrs om)
    (ho : isOpaque d = true) (dl : Nat) :
    getxattr om d x dl = if dl < 1 then .erange 1 else .ok 1 opaqueXattrValue := by
  simp [getxattr, hx, ho, blen_y]

/-- Outside the configured names, or on a directory without marker, `Getxattr` only shows the entry's
own xattrs. -/
theorem getxattr_plain {om : OpaqueMode} {d : Dir} {x : Str}
    (h : x ∉ opaqueXattrs om ∨ isOpaque d = false) (dl : Nat) :
    getxattr om d x dl =
      match xlookup d.xattrs x with
      | some v => if dl < blen v then .erange (blen v) else .ok (blen v) v
      | none => .enodata := by
  rcases h with h | h <;> simp [getxattr, h] <;> rfl

theorem listxattrNames_eq (om : OpaqueMode) (d : Dir) :
    listxattrNames om d = (if isOpaque d = true then opaqueXattrs om else []) ++ d.xattrs.map (·.1) := rfl

/-! ## Inode numbers -/

theorem inodeOfID_eq {b i x : Nat} (h : inodeOfID b i = some x) :
    x = b * 4294967296 + (3 + i) ∧ 3 + i < 4294967296 := by
  unfold inodeOfID maxU32 at h
  split at h
  · cases h
  · rename_i hlt
    have hlt' : 3 + i < 2 ^ 32 := by omega
    have := Nat.shiftLeft_add_eq_or_of_lt hlt' b
    simp only [Option.some.injEq] at h
    rw [← h, ← this, Nat.shiftLeft_eq]
    omega

theorem inodeOfState_eq (b : Nat) : inodeOfState b = b * 4294967296 + 1 := by
  unfold inodeOfState
  have := Nat.shiftLeft_add_eq_or_of_lt (show 1 < 2 ^ 32 by omega) b
  rw [← this, Nat.shiftLeft_eq]

theorem inodeOfStatFile_eq (b : Nat) : inodeOfStatFile b = b * 4294967296 + 2 := by
  unfold inodeOfStatFile
  have := Nat.shiftLeft_add_eq_or_of_lt (show 2 < 2 ^ 32 by omega) b
  rw [← this, Nat.shiftLeft_eq]

theorem inodeOfID_inj {b b' i j x : Nat} (h1 : inodeOfID b i = some x) (h2 : inodeOfID b' j = some x) :
    b = b' ∧ i = j := by
  have a := inodeOfID_eq h1
  have c := inodeOfID_eq h2
  omega

theorem inodeOfID_ne_reserved {b b' i x : Nat} (h : inodeOfID b i = some x) :
    x ≠ inodeOfState b' ∧ x ≠ inodeOfStatFile b' ∧ x ≠ 0 := by
  have a := inodeOfID_eq h
  rw [inodeOfState_eq, inodeOfStatFile_eq]
  omega

/-! ## Stat file -/

theorem statFields_some {l : LayerInfo} (h : 0 < l.size) :
    ∃ fs, statFields l = some fs ∧
      lookupKid fs "digest".toList = some (.str l.digest) ∧
      lookupKid fs "size".toList = some (.int l.size) ∧
      lookupKid fs "fetchedSize".toList = some (.int l.fetched) ∧
      (fs.map (·.1)).Nodup := by
  have hs : l.size ≠ 0 := by omega
  by_cases he : l.err = []
  · refine ⟨_, by simp [statFields, hs, he]; rfl, ?_, ?_, ?_, ?_⟩ <;> simp [lookupKid] <;> decide
  · refine ⟨_, by simp [statFields, hs, he]; rfl, ?_, ?_, ?_, ?_⟩ <;> simp [lookupKid] <;> decide

/-! ## lookupKid -/

theorem lookupKid_cons {β} (n : Str) (t : β) (rest : List (Str × β)) (x : Str) :
    lookupKid ((n, t) :: rest) x = if n = x then some t else lookupKid rest x := rfl

theorem lookupKid_none {β} {l : List (Str × β)} {x : Str} : lookupKid l x = none ↔ ∀ p ∈ l, p.1 ≠ x := by
  induction l with
  | nil => simp [lookupKid]
  | cons p ps ih =>
    obtain ⟨n, t⟩ := p
    rw [lookupKid_cons]
    split
    · simp [*]
    · simp [ih, *]

theorem lookupKid_mem {β} {l : List (Str × β)} {x : Str} {t : β} (h : lookupKid l x = some t) : (x, t) ∈ l := by
  induction l with
  | nil => simp [lookupKid] at h
  | cons p ps ih =>
    obtain ⟨n, t'⟩ := p
    rw [lookupKid_cons] at h
    by_cases hn : n = x
    · subst hn; simp at h; subst h; exact List.mem_cons_self ..
    · simp [hn] at h; exact List.mem_cons_of_mem _ (ih h)

theorem lookupKid_append {β} (l1 l2 : List (Str × β)) (x : Str) :
    lookupKid (l1 ++ l2) x = match lookupKid l1 x with | some t => some t | none => lookupKid l2 x := by
  induction l1 with
  | nil => rfl
  | cons p ps ih =>
    obtain ⟨n, t⟩ := p
    simp only [List.cons_append, lookupKid_cons]
    split <;> simp [ih]

theorem lookupKid_filter {β} (f : Str → Bool) (l : List (Str × β)) (x : Str) :
    lookupKid (l.filter fun p => f p.1) x = if f x = true then lookupKid l x else none := by
  induction l with
  | nil => simp [lookupKid]
  | cons p ps ih =>
    obtain ⟨n, t⟩ := p
    rw [List.filter_cons]
    by_cases hf : f n = true
    · rw [if_pos (by simpa using hf), lookupKid_cons, lookupKid_cons, ih]
      by_cases hn : n = x
      · subst hn; simp [hf]
      · simp [hn]
    · rw [if_neg (by simpa using hf), lookupKid_cons, ih]
      by_cases hn : n = x
      · subst hn; simp [hf]
      · simp [hn]

/-! ## Unfolding the tree recursions -/

theorem serve_file (om : OpaqueMode) (a : Attr) : serve om (.file a) = .file a := by simp [serve]

theorem serve_dir (om : OpaqueMode) (a : Attr) (kids : List (Str × Tree)) :
    serve om (.dir a kids) =
      .dir a (if hasName kids opaqueMarker then opaqueXattrs om else []) (serveKids om false kids kids) := by
  simp [serve]

theorem serveKids_nil (om : OpaqueMode) (r : Bool) (all : List (Str × Tree)) : serveKids om r all [] = [] := by
  simp [serveKids]

theorem serveKids_cons (om : OpaqueMode) (r : Bool) (all : List (Str × Tree)) (n : Str) (t : Tree) (rest) :
    serveKids om r all ((n, t) :: rest) =
      match whTarget? n with
      | some tgt =>
        if n = opaqueMarker ∨ badTarget r tgt = true ∨ hasReal all tgt = true then serveKids om r all rest
        else (tgt, .file (whAttr t.attr.id)) :: serveKids om r all rest
      | none => (n, serve om t) :: serveKids om r all rest := by
  cases h : whTarget? n with
  | none => simp [serveKids, h]
  | some tgt =>
    by_cases hc : n = opaqueMarker ∨ badTarget r tgt = true ∨ hasReal all tgt = true
    · simp [serveKids, h, hc]
    · simp [serveKids, h, hc]

theorem apply_file (a : Attr) (acc : Option Tree) : ociApplyNode (.file a) acc = .file a := by
  simp [ociApplyNode]

theorem apply_dir (a : Attr) (kids : List (Str × Tree)) (acc : Option Tree) :
    ociApplyNode (.dir a kids) acc =
      .dir a (((if hasName kids opaqueMarker then [] else kidsOf acc).filter
          fun p => !hasWhiteoutFor kids p.1 && !hasReal kids p.1) ++
        applyKids (if hasName kids opaqueMarker then [] else kidsOf acc) kids kids) := by
  cases acc with
  | none => simp [ociApplyNode, kidsOf]
  | some t =>
    cases t with
    | file a => simp [ociApplyNode, kidsOf]
    | dir a' K => simp [ociApplyNode, kidsOf]

theorem applyKids_nil (K all : List (Str × Tree)) : applyKids K all [] = [] := by simp [applyKids]

theorem applyKids_cons (K all : List (Str × Tree)) (n : Str) (t : Tree) (rest) :
    applyKids K all ((n, t) :: rest) =
      if isWh n then applyKids K all rest
      else (n, ociApplyNode t (if hasWhiteoutFor all n then none else lookupKid K n)) :: applyKids K all rest := by
  by_cases h : isWh n = true <;> simp [applyKids, h]

theorem okTree_file (kx : KX) (a : Attr) : okTree kx (.file a) = !isWhiteoutDev a := by simp [okTree]

theorem okTree_dir (kx : KX) (a : Attr) (kids) :
    okTree kx (.dir a kids) =
      ((xlookup a.xattrs (kxName kx) != some opaqueXattrValue) && okKids kx kids kids) := by
  simp [okTree]

theorem okKids_cons (kx : KX) (all : List (Str × Tree)) (n : Str) (t : Tree) (rest) :
    okKids kx all ((n, t) :: rest) =
      ((isWh n || (validName n && okTree kx t && !(t.isDir && hasWhiteoutFor all n))) && okKids kx all rest) := by
  simp [okKids]

theorem okKids_lookup {kx : KX} {all l : List (Str × Tree)} (h : okKids kx all l = true) {x : Str} {t : Tree}
    (hx : isWh x = false) (hl : lookupKid l x = some t) :
    okTree kx t = true ∧ (t.isDir && hasWhiteoutFor all x) = false ∧ validName x = true := by
  induction l with
  | nil => simp [lookupKid] at hl
  | cons p ps ih =>
    obtain ⟨n, t'⟩ := p
    rw [okKids_cons] at h
    rw [lookupKid_cons] at hl
    simp only [Bool.and_eq_true, Bool.or_eq_true] at h
    by_cases hn : n = x
    · subst hn
      simp only [if_true, Option.some.injEq] at hl
      subst hl
      rcases h.1 with hw | hok
      · rw [hx] at hw; cases hw
      · simp only [Bool.not_eq_true'] at hok
        exact ⟨hok.1.2, hok.2, hok.1.1⟩
    · simp only [hn, if_false] at hl
      exact ih h.2 hl

/-! ## What a served directory shows for one name -/

theorem hasReal_iff {β} {all : List (Str × β)} {x : Str} :
    hasReal all x = true ↔ isWh x = false ∧ (lookupKid all x).isSome = true := by
  simp [hasReal, hasName]

theorem serveKids_real {om : OpaqueMode} {r : Bool} {all : List (Str × Tree)} {x : Str}
    (hr : hasReal all x = true) (l : List (Str × Tree)) :
    lookupKid (serveKids om r all l) x = (lookupKid l x).map (serve om) := by
  have hx : isWh x = false := (hasReal_iff.mp hr).1
  induction l with
  | nil => simp [serveKids_nil, lookupKid]
  | cons p ps ih =>
    obtain ⟨n, t⟩ := p
    rw [serveKids_cons, lookupKid_cons]
    cases hw : whTarget? n with
    | none =>
      simp only [lookupKid_cons]
      split <;> simp [ih]
    | some tgt =>
      have hn : n = mkWh tgt := whTarget?_eq_some.mp hw
      have hnx : n ≠ x := by
        intro h; rw [← h, hn] at hx; simp at hx
      simp only [hnx, if_false]
      split
      · exact ih
      · rename_i hcond
        have : tgt ≠ x := by
          intro h; apply hcond; right; right; rw [h]; exact hr
        simp [lookupKid_cons, this, ih]

theorem serveKids_noreal {om : OpaqueMode} {r : Bool} {all : List (Str × Tree)} {x : Str}
    (hr : hasReal all x = false) (l : List (Str × Tree)) (hl : ∀ p ∈ l, isWh p.1 = false → p.1 ≠ x) :
    lookupKid (serveKids om r all l) x =
      if mkWh x = opaqueMarker ∨ badTarget r x = true then none
      else (lookupKid l (mkWh x)).map fun t => Lower.file (whAttr t.attr.id) := by
  induction l with
  | nil => simp [serveKids_nil, lookupKid]
  | cons p ps ih =>
    obtain ⟨n, t⟩ := p
    have ih' := ih (fun p hp => hl p (List.mem_cons_of_mem _ hp))
    rw [serveKids_cons]
    cases hw : whTarget? n with
    | none =>
      have hnw : isWh n = false := whTarget?_eq_none.mp hw
      have hnx : n ≠ x := hl (n, t) (List.mem_cons_self ..) hnw
      have hnm : n ≠ mkWh x := by
        intro h; rw [h] at hnw; simp at hnw
      simp only [lookupKid_cons, hnx, hnm, if_false, ih']
    | some tgt =>
      have hn : n = mkWh tgt := whTarget?_eq_some.mp hw
      simp only
      split
      · rename_i hcond
        rw [ih', lookupKid_cons]
        by_cases hm : mkWh x = opaqueMarker ∨ badTarget r x = true
        · simp [hm]
        · simp only [hm, if_false]
          have : n ≠ mkWh x := by
            intro h
            have htx : tgt = x := mkWh_inj.mp (hn ▸ h)
            rcases hcond with hc | hc | hc
            · exact hm (Or.inl (h ▸ hc))
            · exact hm (Or.inr (htx ▸ hc))
            · rw [htx, hr] at hc; cases hc
          simp [this]
      · rename_i hcond
        have hnm : n ≠ opaqueMarker := fun h => hcond (Or.inl h)
        rw [lookupKid_cons, lookupKid_cons]
        by_cases htx : tgt = x
        · subst htx
          have h1 : mkWh tgt ≠ opaqueMarker := hn ▸ hnm
          have h2 : ¬ badTarget r tgt = true := fun h => hcond (Or.inr (Or.inl h))
          simp [h1, h2, hn]
        · have : n ≠ mkWh x := by
            intro h; exact htx (mkWh_inj.mp (hn ▸ h))
          simp only [htx, this, if_false, ih']

theorem isWhiteoutDev_whAttr (id : Nat) : isWhiteoutDev (whAttr id) = true := by
  simp [isWhiteoutDev, whAttr, S_IFCHR_type]

theorem badTarget_of_wh {r : Bool} {x : Str} (h : isWh x = true) : badTarget r x = true := by
  simp [badTarget, h]

/-- The per-directory translation: what the served directory holds at `x`, by what the layer directory
says.  A whiteout of a name Lookup never resolves (`badTarget`) is not served. -/
theorem served_name {om : OpaqueMode} (r : Bool) (all : List (Str × Tree)) (x : Str) :
    match classify all x with
    | .whiteout =>
      if badTarget r x = true then lookupKid (serveKids om r all all) x = none
      else ∃ id, lookupKid (serveKids om r all all) x = some (.file (whAttr id))
    | .file f => lookupKid (serveKids om r all all) x = some (.file f)
    | .dir a k => lookupKid (serveKids om r all all) x = some (serve om (.dir a k))
    | .absent => lookupKid (serveKids om r all all) x = none := by
  unfold classify lookupReal
  by_cases hx : isWh x = true
  · -- a `.wh.` name is never real and never a served whiteout target
    have hr : hasReal all x = false := by simp [hasReal, hx]
    have hside : ∀ p ∈ all, isWh p.1 = false → p.1 ≠ x := by
      intro p _ hp h; rw [h, hx] at hp; cases hp
    have hb : badTarget r x = true := badTarget_of_wh hx
    have hnone : lookupKid (serveKids om r all all) x = none := by
      rw [serveKids_noreal hr all hside]; simp [hb]
    simp only [hx, if_true]
    by_cases hw : hasWhiteoutFor all x = true
    · simp only [hw, if_true, hb]; exact hnone
    · simp only [hw, Bool.false_eq_true, if_false]; exact hnone
  · have hx' : isWh x = false := by simpa using hx
    simp only [hx', Bool.false_eq_true, if_false]
    cases hl : lookupKid all x with
    | some t =>
      have hr : hasReal all x = true := hasReal_iff.mpr ⟨hx', by simp [hl]⟩
      cases t with
      | file a => simp only; rw [serveKids_real hr, hl]; simp [serve_file]
      | dir a k => simp only; rw [serveKids_real hr, hl]; rfl
    | none =>
      have hr : hasReal all x = false := by simp [hasReal, hasName, hl]
      have hside : ∀ p ∈ all, isWh p.1 = false → p.1 ≠ x := fun p hp _ => (lookupKid_none.mp hl) p hp
      simp only
      rw [serveKids_noreal hr all hside]
      have hm : mkWh x ≠ opaqueMarker := mkWh_ne_marker hx'
      by_cases hw : hasWhiteoutFor all x = true
      · simp only [hw, if_true]
        simp only [hasWhiteoutFor, Bool.and_eq_true, hasName] at hw
        by_cases hb : badTarget r x = true
        · simp [hb]
        · simp only [hb, if_false]
          cases hl2 : lookupKid all (mkWh x) with
          | none => simp [hl2] at hw
          | some t => exact ⟨t.attr.id, by simp [hm, hb]⟩
      · simp only [hw, Bool.false_eq_true, if_false]
        simp only [hasWhiteoutFor, Bool.and_eq_true, hasName, bne_iff_ne, ne_eq, not_and, Decidable.not_not] at hw
        cases hl2 : lookupKid all (mkWh x) with
        | none => simp [hm]
        | some t => exact absurd (hw (by simp [hl2])) hm

/-! ## The overlay side, name level -/

theorem compat_mem {om : OpaqueMode} {kx : KX} (h : compat om kx = true) : kxName kx ∈ opaqueXattrs om := by
  simpa [compat] using h

/-- The kernel finds the served directory opaque exactly when the layer directory has the marker. -/
theorem lowerOpaque_serveDir {om : OpaqueMode} {kx : KX} (hc : compat om kx = true) {d : DirT}
    (hok : okTree kx d.tree = true) (r : Bool) :
    lowerOpaque kx (serveDir om r d) = hasName d.2 opaqueMarker := by
  obtain ⟨a, all⟩ := d
  simp only [DirT.tree, okTree_dir, Bool.and_eq_true, bne_iff_ne, ne_eq] at hok
  simp only [lowerOpaque, serveDir, lowerGetxattr]
  by_cases hm : hasName all opaqueMarker = true
  · simp [hm, compat_mem hc]
  · simp only [hm, Bool.false_eq_true, if_false, List.contains_nil]
    simpa using hok.1

theorem classify_ok {kx : KX} {all : List (Str × Tree)} (hok : okKids kx all all = true) (x : Str) :
    match classify all x with
    | .file f => isWhiteoutDev f = false
    | .dir a k => okTree kx (.dir a k) = true ∧ hasWhiteoutFor all x = false
    | _ => True := by
  unfold classify lookupReal
  by_cases hx : isWh x = true
  · simp only [hx, if_true]
    by_cases hw : hasWhiteoutFor all x = true <;> simp [hw]
  · have hx' : isWh x = false := by simpa using hx
    simp only [hx', Bool.false_eq_true, if_false]
    cases hl : lookupKid all x with
    | none => by_cases hw : hasWhiteoutFor all x = true <;> simp [hw]
    | some t =>
      obtain ⟨h1, h2, _⟩ := okKids_lookup hok hx' hl
      cases t with
      | file f => simpa [okTree_file] using h1
      | dir a k => exact ⟨h1, by simpa [Tree.isDir] using h2⟩

theorem sub_ok {kx : KX} {x : Str} : ∀ {tl : List DirT}, OkDirs kx tl → ∀ {ds}, sub x tl = .dirs ds → OkDirs kx ds := by
  intro tl
  induction tl with
  | nil => intro _ ds h; simp [sub] at h
  | cons d rest ih =>
    intro hok ds h
    have hd := hok d (List.mem_cons_self ..)
    have hrest : OkDirs kx rest := fun d' hd' => hok d' (List.mem_cons_of_mem _ hd')
    have hk : okKids kx d.2 d.2 = true := by
      obtain ⟨a, all⟩ := d
      simp only [DirT.tree, okTree_dir, Bool.and_eq_true] at hd; exact hd.2
    have hc := classify_ok hk x
    simp only [sub] at h
    cases hcl : classify d.2 x with
    | whiteout => simp [hcl] at h
    | file f => simp [hcl] at h
    | absent =>
      simp only [hcl] at h
      split at h
      · cases h
      · exact ih hrest h
    | dir a' k' =>
      simp only [hcl] at h hc
      simp only [Sub.dirs.injEq] at h
      subst h
      intro d' hd'
      rcases List.mem_cons.mp hd' with rfl | hd'
      · exact hc.1
      · split at hd'
        · cases hd'
        · cases hs : sub x rest with
          | dirs ds' => rw [hs] at hd'; exact ih hrest hs d' hd'
          | absent => rw [hs] at hd'; cases hd'
          | file f => rw [hs] at hd'; cases hd'

/-- A name Lookup never resolves is left absent by OCI application too: no real entry has such a name. -/
theorem sub_bad {kx : KX} {r : Bool} {x : Str} (hb : badTarget r x = true) :
    ∀ {tl : List DirT}, OkDirs kx tl → NoLandmarkKids r tl → sub x tl = .absent := by
  intro tl
  induction tl with
  | nil => intro _ _; rfl
  | cons d rest ih =>
    intro hok hlm
    have hd := hok d (List.mem_cons_self ..)
    have hrest : OkDirs kx rest := fun d' hd' => hok d' (List.mem_cons_of_mem _ hd')
    have hlmr : NoLandmarkKids r rest := fun hr d' hd' => hlm hr d' (List.mem_cons_of_mem _ hd')
    have hk : okKids kx d.2 d.2 = true := by
      obtain ⟨a, all⟩ := d
      simp only [DirT.tree, okTree_dir, Bool.and_eq_true] at hd; exact hd.2
    have hreal : lookupReal d.2 x = none := by
      unfold lookupReal
      by_cases hx : isWh x = true
      · simp [hx]
      · have hx' : isWh x = false := by simpa using hx
        simp only [hx', Bool.false_eq_true, if_false]
        cases hl : lookupKid d.2 x with
        | none => rfl
        | some t =>
          exfalso
          obtain ⟨_, _, hv⟩ := okKids_lookup hk hx' hl
          simp only [validName, Bool.and_eq_true, bne_iff_ne, ne_eq, Bool.not_eq_true'] at hv
          simp only [badTarget, Bool.or_eq_true, beq_iff_eq, hx', Bool.false_eq_true, or_false,
            Bool.and_eq_true] at hb
          rcases hb with (hb | hb) | hb
          · exact hv.1 hb
          · rw [hv.2] at hb; cases hb
          · have := hlm hb.1 d (List.mem_cons_self ..) (x, t) (lookupKid_mem hl)
            rw [hb.2] at this; cases this
    simp only [sub, classify, hreal]
    by_cases hw : hasWhiteoutFor d.2 x = true
    · simp [hw]
    · simp only [hw, Bool.false_eq_true, if_false]
      split
      · rfl
      · exact ih hrest hlmr

/-- Name-level merge: looking `x` up through the served directories gives the served form of what OCI
application leaves at `x`. -/
theorem descend_serve {om : OpaqueMode} {kx : KX} (hc : compat om kx = true) (r : Bool) (x : Str) :
    ∀ {tl : List DirT}, OkDirs kx tl → NoLandmarkKids r tl →
      descend kx x (tl.map (serveDir om r)) = (sub x tl).serve om := by
  intro tl
  induction tl with
  | nil => intro _ _; rfl
  | cons d rest ih =>
    intro hok hlm
    have hd := hok d (List.mem_cons_self ..)
    have hrest : OkDirs kx rest := fun d' hd' => hok d' (List.mem_cons_of_mem _ hd')
    have hlmr : NoLandmarkKids r rest := fun hr d' hd' => hlm hr d' (List.mem_cons_of_mem _ hd')
    have hk : okKids kx d.2 d.2 = true := by
      obtain ⟨a, all⟩ := d
      simp only [DirT.tree, okTree_dir, Bool.and_eq_true] at hd; exact hd.2
    have hcl := classify_ok hk x
    have hsn := served_name (om := om) r d.2 x
    have hop := lowerOpaque_serveDir hc hd r
    simp only [List.map_cons, descend, sub]
    have hkids : (serveDir om r d).2.2 = serveKids om r d.2 d.2 := rfl
    rw [hkids, hop, ih hrest hlmr]
    cases hcls : classify d.2 x with
    | whiteout =>
      simp only [hcls] at hsn
      by_cases hb : badTarget r x = true
      · simp only [hb, if_true] at hsn
        simp only [hsn, sub_bad hb hrest hlmr]
        split <;> rfl
      · simp only [hb, if_false] at hsn
        obtain ⟨id, hid⟩ := hsn
        simp [hid, isWhiteoutDev_whAttr, Sub.serve]
    | file f =>
      simp only [hcls] at hsn hcl
      simp [hsn, hcl, Sub.serve]
    | absent =>
      simp only [hcls] at hsn
      simp only [hsn]
      split <;> simp [Sub.serve]
    | dir a' k' =>
      simp only [hcls] at hsn
      simp only [hsn, serve_dir, Sub.serve]
      by_cases hm : hasName d.2 opaqueMarker = true
      · simp [hm, serveDir]
      · simp only [hm, Bool.false_eq_true, if_false]
        cases hs : sub x rest with
        | absent => simp [Sub.serve, serveDir]
        | file f => simp [Sub.serve, serveDir]
        | dirs ds => simp [Sub.serve, serveDir]

/-! ## The OCI side, name level -/

theorem applyKids_lookup (K all : List (Str × Tree)) (x : Str) (l : List (Str × Tree)) :
    lookupKid (applyKids K all l) x =
      if isWh x = true then none
      else (lookupKid l x).map fun t =>
        ociApplyNode t (if hasWhiteoutFor all x then none else lookupKid K x) := by
  induction l with
  | nil => simp [applyKids_nil, lookupKid]
  | cons p ps ih =>
    obtain ⟨n, t⟩ := p
    rw [applyKids_cons]
    by_cases hn : isWh n = true
    · simp only [hn, if_true, ih, lookupKid_cons]
      by_cases hx : isWh x = true
      · simp [hx]
      · have : n ≠ x := by intro h; rw [h] at hn; exact hx hn
        simp [hx, this]
    · simp only [hn, Bool.false_eq_true, if_false, lookupKid_cons, ih]
      by_cases hnx : n = x
      · subst hnx; simp [hn]
      · simp [hnx]

theorem apply_dir_nondir_acc (a : Attr) (kids : List (Str × Tree)) (f : Attr) :
    ociApplyNode (.dir a kids) (some (.file f)) = ociApplyNode (.dir a kids) none := by
  simp [apply_dir, kidsOf]

theorem appliedOf_kids (d : DirT) (rest : List DirT) :
    appliedOf (d :: rest) = some (.dir d.1
      (((if hasName d.2 opaqueMarker then [] else kidsOf (appliedOf rest)).filter
          fun p => !hasWhiteoutFor d.2 p.1 && !hasReal d.2 p.1) ++
        applyKids (if hasName d.2 opaqueMarker then [] else kidsOf (appliedOf rest)) d.2 d.2)) := by
  simp [appliedOf, apply_dir]

theorem kidsOf_applied_cons (d : DirT) (rest : List DirT) :
    kidsOf (appliedOf (d :: rest)) =
      ((if hasName d.2 opaqueMarker then [] else kidsOf (appliedOf rest)).filter
          fun p => !hasWhiteoutFor d.2 p.1 && !hasReal d.2 p.1) ++
        applyKids (if hasName d.2 opaqueMarker then [] else kidsOf (appliedOf rest)) d.2 d.2 := by
  rw [appliedOf_kids]; rfl

/-- Name-level OCI application: the child `x` of the applied directory. -/
theorem applied_child {kx : KX} (x : Str) :
    ∀ {tl : List DirT}, OkDirs kx tl → lookupKid (kidsOf (appliedOf tl)) x = (sub x tl).tree := by
  intro tl
  induction tl with
  | nil => intro _; rfl
  | cons d rest ih =>
    intro hok
    have hd := hok d (List.mem_cons_self ..)
    have hrest : OkDirs kx rest := fun d' hd' => hok d' (List.mem_cons_of_mem _ hd')
    have hk : okKids kx d.2 d.2 = true := by
      obtain ⟨a, all⟩ := d
      simp only [DirT.tree, okTree_dir, Bool.and_eq_true] at hd; exact hd.2
    have hcl := classify_ok hk x
    have ihr := ih hrest
    rw [kidsOf_applied_cons]
    simp only [lookupKid_append, lookupKid_filter (fun n => !hasWhiteoutFor d.2 n && !hasReal d.2 n),
      applyKids_lookup, sub]
    have hbase : lookupKid (if hasName d.2 opaqueMarker = true then [] else kidsOf (appliedOf rest)) x =
        if hasName d.2 opaqueMarker = true then none else (sub x rest).tree := by
      split
      · rfl
      · exact ihr
    rw [hbase]
    unfold classify lookupReal at hcl ⊢
    by_cases hx : isWh x = true
    · -- `.wh.` names are never real
      have hr : hasReal d.2 x = false := by simp [hasReal, hx]
      simp only [hx, if_true, hr, Bool.not_false, Bool.and_true]
      by_cases hw : hasWhiteoutFor d.2 x = true
      · simp [hw, Sub.tree]
      · simp only [hw, Bool.not_false, if_true, Bool.false_eq_true, if_false]
        by_cases hm : hasName d.2 opaqueMarker = true
        · simp [hm, Sub.tree]
        · simp only [hm, Bool.false_eq_true, if_false]
          cases (sub x rest).tree <;> rfl
    · have hx' : isWh x = false := by simpa using hx
      simp only [hx', Bool.false_eq_true, if_false] at hcl ⊢
      cases hl : lookupKid d.2 x with
      | none =>
        have hr : hasReal d.2 x = false := by simp [hasReal, hasName, hl]
        simp only [hr, Bool.not_false, Bool.and_true, Option.map_none]
        by_cases hw : hasWhiteoutFor d.2 x = true
        · simp [hw, Sub.tree]
        · simp only [hw, Bool.not_false, if_true, Bool.false_eq_true, if_false]
          by_cases hm : hasName d.2 opaqueMarker = true
          · simp [hm, Sub.tree]
          · simp only [hm, Bool.false_eq_true, if_false]
            cases (sub x rest).tree <;> rfl
      | some t =>
        have hr : hasReal d.2 x = true := hasReal_iff.mpr ⟨hx', by simp [hl]⟩
        simp only [hr, Bool.not_true, Bool.and_false, Bool.false_eq_true, if_false, Option.map_some]
        rw [hl] at hcl
        cases t with
        | file f => simp [apply_file, Sub.tree]
        | dir a' k' =>
          simp only at hcl
          simp only [hcl.2, Bool.false_eq_true, if_false, Sub.tree, appliedOf]
          by_cases hm : hasName d.2 opaqueMarker = true
          · simp [hm, appliedOf]
          · simp only [hm, Bool.false_eq_true, if_false]
            cases hs : sub x rest with
            | absent => simp [Sub.tree, appliedOf]
            | file f => simp [Sub.tree, appliedOf, apply_dir_nondir_acc]
            | dirs ds => simp [Sub.tree]

theorem appliedOf_cons_dir (d : DirT) (rest : List DirT) :
    ∃ kids, appliedOf (d :: rest) = some (.dir d.1 kids) := ⟨_, appliedOf_kids d rest⟩

/-- One path step on the OCI side. -/
theorem applied_step {kx : KX} (x : Str) (p : List Str) {tl : List DirT} (hok : OkDirs kx tl) :
    resolveOpt (appliedOf tl) (x :: p) =
      match sub x tl with
      | .absent => none
      | .file f => if p = [] then some (.file f) else none
      | .dirs ds => resolveOpt (appliedOf ds) p := by
  cases tl with
  | nil => rfl
  | cons d rest =>
    have hc := applied_child (kx := kx) x hok
    obtain ⟨kids, hk⟩ := appliedOf_cons_dir d rest
    rw [hk] at hc ⊢
    simp only [kidsOf] at hc
    simp only [resolveOpt, resolve, hc]
    cases hs : sub x (d :: rest) with
    | absent => simp [Sub.tree]
    | file f =>
      simp only [Sub.tree]
      cases p with
      | nil => simp [resolve, Tree.node]
      | cons y q => simp [resolve]
    | dirs ds =>
      simp only [Sub.tree]
      cases appliedOf ds <;> simp [resolveOpt]

/-- The tree version: every path resolves alike in the overlay of the served directories and in the
directory obtained by OCI application. -/
theorem ovl_eq_applied {om : OpaqueMode} {kx : KX} (hc : compat om kx = true) (p : List Str) :
    ∀ {r : Bool} {tl : List DirT}, OkDirs kx tl → NoLandmarkKids r tl →
      ovlResolve kx (tl.map (serveDir om r)) p = resolveOpt (appliedOf tl) p := by
  induction p with
  | nil =>
    intro r tl _ _
    cases tl with
    | nil => rfl
    | cons d rest =>
      obtain ⟨kids, hk⟩ := appliedOf_cons_dir d rest
      simp [ovlResolve, hk, resolveOpt, resolve, Tree.node, serveDir]
  | cons x p ih =>
    intro r tl hok hlm
    cases tl with
    | nil => rfl
    | cons d rest =>
      rw [applied_step x p hok]
      have hds := descend_serve hc r x hok hlm
      simp only [List.map_cons] at hds ⊢
      simp only [ovlResolve, hds]
      cases hs : sub x (d :: rest) with
      | absent => simp [Sub.serve]
      | file f => simp [Sub.serve]
      | dirs ds =>
        simp only [Sub.serve]
        exact ih (r := false) (sub_ok hok hs) (fun h => by cases h)

/-! ## Whole layers -/

theorem stripRoot_tree (d : DirT) : stripRoot d.tree = (stripD d).tree := rfl

theorem serveRoot_dir (om : OpaqueMode) (d : DirT) :
    (serveRoot om d.tree).dir? = some (serveDir om true (stripD d)) := by
  obtain ⟨a, kids⟩ := d
  simp only [serveRoot, DirT.tree, stripRoot, serve_dir, Lower.dir?, serveDir, stripD]
  rfl

theorem served_stack (om : OpaqueMode) (layers : List DirT) :
    ((layers.map fun d => serveRoot om d.tree).reverse.filterMap Lower.dir?) =
      (layers.reverse.map stripD).map (serveDir om true) := by
  rw [← List.map_reverse, List.filterMap_map]
  rw [List.map_map]
  induction layers.reverse with
  | nil => rfl
  | cons d ds ih => simp [List.filterMap_cons, serveRoot_dir, ih]

theorem apply_empty_acc (a : Attr) (kids : List (Str × Tree)) :
    ociApplyNode (.dir a kids) (some emptyFs) = ociApplyNode (.dir a kids) none := by
  simp [apply_dir, kidsOf, emptyFs]

theorem foldr_applied : ∀ (tl : List DirT), tl ≠ [] →
    some ((tl.map DirT.tree).foldr (fun l acc => ociApply acc l) emptyFs) = appliedOf (tl.map stripD) := by
  intro tl
  induction tl with
  | nil => intro h; exact absurd rfl h
  | cons d rest ih =>
    intro _
    cases rest with
    | nil =>
      simp only [List.map_cons, List.map_nil, List.foldr_cons, List.foldr_nil, appliedOf, ociApply,
        stripRoot_tree]
      exact congrArg some (apply_empty_acc _ _)
    | cons d' rest' =>
      have := ih (by simp)
      simp only [List.map_cons, List.foldr_cons, appliedOf, ociApply, stripRoot_tree] at this ⊢
      rw [← this]
      rfl

theorem ociRootFs_eq (layers : List DirT) (hne : layers ≠ []) :
    ociRootFs (layers.map DirT.tree) = resolveOpt (appliedOf (layers.reverse.map stripD)) := by
  funext p
  have h := foldr_applied layers.reverse (by simpa using hne)
  rw [← h]
  simp only [ociRootFs, resolveOpt, List.foldl_eq_foldr_reverse, List.map_reverse]

theorem layers_ok {kx : KX} {layers : List DirT} (hok : ∀ d ∈ layers, LayerOK kx d) :
    OkDirs kx (layers.reverse.map stripD) := by
  intro d hd
  simp only [List.mem_map, List.mem_reverse] at hd
  obtain ⟨d0, hd0, rfl⟩ := hd
  exact hok d0 hd0


theorem layers_noLandmark (layers : List DirT) : NoLandmarkKids true (layers.reverse.map stripD) := by
  intro _ d hd p hp
  simp only [List.mem_map, List.mem_reverse] at hd
  obtain ⟨d0, _, rfl⟩ := hd
  simp only [stripD, List.mem_filter, Bool.not_eq_true'] at hp
  exact hp.2

/-! ## Histories -/

theorem stable_ok (r : LRes) : r.stable.ok = r.ok := by cases r <;> rfl
theorem stable_ino (r : LRes) : r.stable.ino? = r.ino? := by cases r <;> rfl
theorem stable_stype (r : LRes) : r.stable.stype = r.stype := by cases r <;> rfl
theorem stable_getattr (r : LRes) : getattrOf r.stable = getattrOf r := by cases r <;> rfl

/-- The state after a call history. -/
def runSt (d : Dir) (s : NodeSt) (ops : List Op) : NodeSt := ops.foldl (fun s o => (stepOp d s o).1) s

theorem runSt_inv {d : Dir} (ops : List Op) : ∀ {s : NodeSt}, Inv d s → Inv d (runSt d s ops) := by
  induction ops with
  | nil => intro s h; exact h
  | cons o os ih => intro s h; exact ih (stepOp_inv h o)

theorem lookupSt_eq_pure {d : Dir} {s : NodeSt} (hi : Inv d s) (n : Str) (hne : n ≠ []) :
    (lookupSt d s n).2.stable = lookupPure d n := lookupSt_stable hi n hne


theorem getChild_map (kids : List (Str × Tree)) (n : Str) :
    getChild (kids.map childOf) n = (lookupKid kids n).map fun t => childOf (n, t) := by
  induction kids with
  | nil => rfl
  | cons p ps ih =>
    obtain ⟨m, t⟩ := p
    simp only [List.map_cons, getChild, lookupKid_cons, childOf]
    by_cases h : m = n
    · subst h; simp
    · simp [h, ih, childOf]

theorem serve_attr (om : OpaqueMode) (t : Tree) : (serve om t).attr = t.attr := by
  cases t with
  | file a => simp [serve_file, Lower.attr, Tree.attr]
  | dir a k => simp [serve_dir, Lower.attr, Tree.attr]

theorem lookupKid_served (isRoot : Bool) (kids : List (Str × Tree)) (n : Str) :
    lookupKid (servedKidsOf isRoot kids) n =
      if (isRoot && isLandmark n) = true then none else lookupKid kids n := by
  unfold servedKidsOf
  cases isRoot with
  | false => simp
  | true =>
    simp only [if_true, Bool.true_and]
    rw [lookupKid_filter (fun n => !isLandmark n)]
    cases isLandmark n <;> simp

/-- `serve` at one directory shows exactly what `readdir` lists for the node of that directory, with the
same type bits and inode source. -/
theorem serve_matches_readdir (om : OpaqueMode) (isRoot : Bool) (base : Nat) (a : Attr)
    (kids : List (Str × Tree)) {ents : List DirEnt}
    (h : readdir (dirOfTree isRoot base a kids) = some ents) (x : Str) (hx : isDots x = false) :
    (∃ e ∈ ents, e.name = x) ↔
      (lookupKid (serveKids om isRoot (servedKidsOf isRoot kids) (servedKidsOf isRoot kids)) x).isSome = true := by
  obtain ⟨d, hd⟩ : ∃ d, d = dirOfTree isRoot base a kids := ⟨_, rfl⟩
  obtain ⟨sk, hsk⟩ : ∃ sk, sk = servedKidsOf isRoot kids := ⟨_, rfl⟩
  rw [← hd] at h
  rw [← hsk]
  have hroot : d.isRoot = isRoot := by rw [hd]; rfl
  have hch : d.children = kids.map childOf := by rw [hd]; rfl
  -- a normal child named x ⇔ the served children have a real x
  have normal_iff : hasNormal d x = true ↔ hasReal sk x = true := by
    rw [hasNormal_iff, hasReal_iff]
    constructor
    · rintro ⟨c, hc, hcn, hn⟩
      rw [hcn] at hn
      obtain ⟨_, hl, hw⟩ := isNormal_iff.mp hn
      refine ⟨hw, ?_⟩
      rw [hsk, lookupKid_served, ← hroot, hl]
      simp only [Bool.false_eq_true, if_false]
      rw [hch, List.mem_map] at hc
      obtain ⟨p, hp, rfl⟩ := hc
      cases hlk : lookupKid kids x with
      | some t => rfl
      | none => exact absurd hcn ((lookupKid_none.mp hlk) p hp)
    · rintro ⟨hw, hs⟩
      rw [hsk, lookupKid_served] at hs
      by_cases hl : (isRoot && isLandmark x) = true
      · simp [hl] at hs
      · simp only [hl, if_false] at hs
        cases hlk : lookupKid kids x with
        | none => simp [hlk] at hs
        | some t =>
          refine ⟨childOf (x, t), ?_, rfl, ?_⟩
          · rw [hch]; exact List.mem_map_of_mem (lookupKid_mem hlk)
          · show isNormal d.isRoot x = true
            exact isNormal_iff.mpr ⟨hx, by simpa [hroot] using hl, hw⟩
  have hsn := served_name (om := om) isRoot sk x
  constructor
  · rintro ⟨e, he, hen⟩
    rcases (mem_readdir h e).mp he with hdot | ⟨c, hc, hnorm, hce⟩ | ⟨c, hc, t, hwo, hbt, hno, hce⟩
    · exfalso
      simp only [dotEnts, List.mem_cons, List.mem_nil_iff, or_false] at hdot
      have : isDots x = true := by rcases hdot with rfl | rfl <;> (rw [← hen]; decide)
      rw [hx] at this; cases this
    · have hcx : c.name = x := (normalEnt_eq hce).1 ▸ hen
      have hr : hasReal sk x = true := normal_iff.mp (hasNormal_iff.mpr ⟨c, hc, hcx, hnorm⟩)
      rw [serveKids_real hr]
      obtain ⟨_, hs⟩ := hasReal_iff.mp hr
      cases hlk : lookupKid sk x with
      | none => rw [hlk] at hs; cases hs
      | some t => rfl
    · have htx : t = x := (whEnt_eq hce).1 ▸ hen
      subst htx
      obtain ⟨hcn, hnm, _⟩ := whOf_eq_some.mp hwo
      have hr : hasReal sk t = false := by
        cases hh : hasReal sk t with
        | false => rfl
        | true => rw [normal_iff.mpr hh] at hno; cases hno
      have hside : ∀ p ∈ sk, isWh p.1 = false → p.1 ≠ t := by
        intro p hp hpw hpt
        have : hasReal sk t = true := by
          rw [hasReal_iff]; refine ⟨hpt ▸ hpw, ?_⟩
          cases hlk : lookupKid sk t with
          | some _ => rfl
          | none => exact absurd hpt ((lookupKid_none.mp hlk) p hp)
        rw [hr] at this; cases this
      rw [serveKids_noreal hr sk hside]
      have hm : mkWh t ≠ opaqueMarker := hcn ▸ hnm
      have hbt' : ¬ badTarget isRoot t = true := by rw [← hroot, hbt]; simp
      simp only [hm, hbt', or_self, if_false]
      rw [hsk, lookupKid_served]
      have : (isRoot && isLandmark (mkWh t)) = false := by simp [wh_not_landmark (isWh_mkWh t)]
      simp only [this, Bool.false_eq_true, if_false]
      rw [hch, List.mem_map] at hc
      obtain ⟨p, hp, rfl⟩ := hc
      cases hlk : lookupKid kids (mkWh t) with
      | some _ => rfl
      | none => exact absurd hcn ((lookupKid_none.mp hlk) p hp)
  · intro hs
    -- a served whiteout of `x`: its target can be looked up, so `readdir` lists it
    have wh_case : hasWhiteoutFor sk x = true → badTarget isRoot x = false → hasNormal d x = false →
        ∃ e ∈ ents, e.name = x := by
      intro hwf hbf hno
      simp only [hasWhiteoutFor, Bool.and_eq_true, bne_iff_ne, ne_eq, hasName] at hwf
      obtain ⟨hname, hm⟩ := hwf
      rw [hsk, lookupKid_served] at hname
      have hl : (isRoot && isLandmark (mkWh x)) = false := by simp [wh_not_landmark (isWh_mkWh x)]
      simp only [hl, Bool.false_eq_true, if_false] at hname
      cases hlk : lookupKid kids (mkWh x) with
      | none => rw [hlk] at hname; cases hname
      | some t =>
        have hc : childOf (mkWh x, t) ∈ d.children := by
          rw [hch]; exact List.mem_map_of_mem (lookupKid_mem hlk)
        have hwo : whOf d.isRoot (childOf (mkWh x, t)).name = some x :=
          whOf_eq_some.mpr ⟨rfl, hm, by simpa [hroot, childOf] using hl⟩
        have hbd : badTarget d.isRoot x = false := by rw [hroot]; exact hbf
        have hsome := readdir_some_wh h hc hwo hbd hno
        cases hce : whEnt d.base x (childOf (mkWh x, t)) with
        | none => simp [hce] at hsome
        | some e =>
          exact ⟨e, (mem_readdir h e).mpr (Or.inr (Or.inr ⟨_, hc, x, hwo, hbd, hno, hce⟩)), (whEnt_eq hce).1⟩
    unfold classify lookupReal at hsn
    by_cases hw : isWh x = true
    · exfalso
      have hb : badTarget isRoot x = true := badTarget_of_wh hw
      simp only [hw, if_true] at hsn
      by_cases hwf : hasWhiteoutFor sk x = true
      · simp only [hwf, if_true, hb] at hsn
        rw [hsn] at hs; cases hs
      · simp only [hwf, Bool.false_eq_true, if_false] at hsn
        rw [hsn] at hs; cases hs
    · have hw' : isWh x = false := by simpa using hw
      simp only [hw', Bool.false_eq_true, if_false] at hsn
      cases hlk : lookupKid sk x with
      | some t =>
        have hr : hasReal sk x = true := hasReal_iff.mpr ⟨hw', by simp [hlk]⟩
        obtain ⟨c, hc, hcn, hn⟩ := hasNormal_iff.mp (normal_iff.mpr hr)
        have hsome := readdir_some_normal h hc hn
        cases hce : normalEnt d.base c with
        | none => simp [hce] at hsome
        | some e =>
          exact ⟨e, (mem_readdir h e).mpr (Or.inr (Or.inl ⟨c, hc, hn, hce⟩)), (normalEnt_eq hce).1.trans hcn⟩
      | none =>
        simp only [hlk] at hsn
        have hno : hasNormal d x = false := by
          cases hh : hasNormal d x with
          | false => rfl
          | true =>
            obtain ⟨_, hs'⟩ := hasReal_iff.mp (normal_iff.mp hh)
            rw [hlk] at hs'; cases hs'
        by_cases hwf : hasWhiteoutFor sk x = true
        · simp only [hwf, if_true] at hsn
          by_cases hb : badTarget isRoot x = true
          · simp only [hb, if_true] at hsn
            rw [hsn] at hs; cases hs
          · exact wh_case hwf (by simpa using hb) hno
        · simp only [hwf, Bool.false_eq_true, if_false] at hsn
          rw [hsn] at hs; cases hs

end SV.Overlay
