#!/usr/bin/env python3
"""Repeat one correspondence stream of a check many times (same or several seeds) and print every
mismatch — for hunting schedule-dependent (flaky) disagreements between model and implementation.
usage: flaky_probe.py C01 fs/reader TestVerifC01 svdriver_c01 [--n 20] [--seeds 1,2,3] [--env K=V ...] [--module cmd] [--only c02,c15]"""
import argparse, json, os, sys
sys.path.insert(0, os.path.dirname(os.path.abspath(__file__)))
import vlib

ap = argparse.ArgumentParser()
ap.add_argument("pid"); ap.add_argument("pkg"); ap.add_argument("test"); ap.add_argument("exe")
ap.add_argument("--n", type=int, default=10); ap.add_argument("--seeds", default="1")
ap.add_argument("--env", nargs="*", default=[]); ap.add_argument("--module", default=None); ap.add_argument("--only", default=None)
a = ap.parse_args()
ctx = vlib.Ctx(a.pid, "quick", 1, None)
kw = {}
if a.module: kw["module_dir"] = a.module
if a.only: kw["only"] = a.only.split(",")
b = ctx.go_test_binary(a.pkg, "h_probe", **kw)
env = dict(kv.split("=", 1) for kv in a.env)
bad = 0
for it in range(a.n):
    for seed in [int(s) for s in a.seeds.split(",")]:
        ctx.seed = seed
        tag = f"probe{it}s{seed}"
        ops, impl, rep = ctx.run_harness(b, a.test, tag, env=env, timeout=900)
        model = ctx.run_driver(a.exe, ops)
        nops, mism, nm = ctx.diff_streams(ops, impl, model, limit=3)
        fails = rep.get("oracle_failures") or []
        print(f"iter {it} seed {seed}: ops={nops} mismatches={nm} oracle_failures={len(fails)} crashed={rep.get('crashed', False)}", flush=True)
        if nm or fails or rep.get("crashed"):
            bad += 1
            print(json.dumps({"mism": mism, "fails": fails[:3]}, indent=1)[:6000], flush=True)
print("bad runs:", bad)
