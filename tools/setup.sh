#!/bin/bash
# Offline setup after a fresh restore: build the Lean library + all drivers, warm the Go build cache.
# Every check rebuilds what it needs itself; this only warms caches, so a failure of one target
# here is reported but does not fail the setup.
cd "$(dirname "$(readlink -f "$0")")/.."
mkdir -p build evidence/replays
(cd lean && lake build) || echo "WARN: lake build reported failures (the affected checks will report them)"
export GOFLAGS=-mod=mod GOPROXY=off
(cd /repo && go build ./... >/dev/null 2>&1 || true)
(cd /repo && go test -tags verif -vet=off -count=1 -run '^$' ./fs/... ./util/... ./task/... ./store/... ./snapshot/... ./fusemanager/... ./cache/... >/dev/null 2>&1 || true)
echo setup done
exit 0
