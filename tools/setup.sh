#!/bin/bash
# Offline setup after a fresh restore: build the Lean library + all drivers, warm the Go build cache.
set -e
cd "$(dirname "$(readlink -f "$0")")/.."
mkdir -p build evidence/replays
(cd lean && lake build)
export GOFLAGS=-mod=mod GOPROXY=off
(cd /repo && go build ./... >/dev/null 2>&1 || true)
echo setup done
