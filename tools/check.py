#!/usr/bin/env python3
import argparse
import importlib.util
import json
import os
import sys

sys.path.insert(0, os.path.dirname(os.path.abspath(__file__)))
import vlib


def main():
    ap = argparse.ArgumentParser()
    ap.add_argument("pid")
    ap.add_argument("--tier", default=os.environ.get("VERIF_TIER", "quick"), choices=["quick", "thorough"])
    ap.add_argument("--replay", default=None)
    ap.add_argument("--seed", default=None)
    a = ap.parse_args()
    seed = a.seed or os.environ.get("VERIF_SEED") or "1"
    replay = None
    if a.replay:
        replay = json.load(open(a.replay))
        seed = str(replay.get("seed", seed))
        a.tier = replay.get("tier", a.tier)
    try:
        seed = int(seed)
    except ValueError:
        seed = 1
    path = os.path.join(vlib.VERIF, "checks", a.pid + ".py")
    if not os.path.exists(path):
        print(f"no check for {a.pid}")
        sys.exit(2)
    spec = importlib.util.spec_from_file_location("chk_" + a.pid, path)
    mod = importlib.util.module_from_spec(spec)
    spec.loader.exec_module(mod)
    ctx = vlib.Ctx(a.pid, a.tier, seed, replay)
    rc = mod.run(ctx)
    sys.exit(rc)


if __name__ == "__main__":
    main()
