#!/usr/bin/env python3
"""Assemble MANIFEST.json from manifest.d/Cxx.json fragments (one per claimed property).
Properties without a fragment are listed under not_applicable (reason from manifest.d/NA.json or a default)."""
import json, os, glob
V = os.path.dirname(os.path.dirname(os.path.abspath(__file__)))
props = [json.loads(l)["id"] for l in open(os.path.join(V, "properties.jsonl")) if l.strip()]
frags = {}
for fn in sorted(glob.glob(os.path.join(V, "manifest.d", "C*.json"))):
    d = json.load(open(fn))
    frags[d["property_id"]] = d
na_reasons = {}
p = os.path.join(V, "manifest.d", "NA.json")
if os.path.exists(p):
    na_reasons = json.load(open(p))
checks, na = [], []
for pid in props:
    if pid in frags:
        d = dict(frags[pid])
        d.setdefault("quick_cmd", f"./check {pid} --tier quick")
        d.setdefault("thorough_cmd", f"./check {pid} --tier thorough")
        d.setdefault("evidence_file", f"evidence/{pid}.json")
        d.setdefault("replay_cmd_template", f"./check {pid} --replay {{path}}")
        d.setdefault("engine", "lean-model")
        checks.append(d)
    else:
        na.append({"property_id": pid, "reason": na_reasons.get(pid, "not claimed in this revision: the Lean model and correspondence harness for this property are not built yet (technique applies; see DESIGN.md)")})
claimed = [c["property_id"] for c in checks]
man = {
 "version": 1,
 "setup_cmd": "tools/setup.sh",
 "hooks": {
  "guard": "verif (Go build tag)",
  "enable": "go test -c -tags verif -overlay <generated from /verif/harness/overlay> ./<pkg>  (tools/vlib.py go_test_binary)",
  "baseline_off_cmd": "tools/baseline_off.sh",
  "source_commits": ["2410803", "9aeb216", "bdf9d58"],
  "add_only": True
 },
 "engines": [
  {"name": "lean-model", "path": "lean", "serves_properties": claimed,
   "kind_free_text": "Lean 4 models (SV/Model), lemmas, property theorems (SV/Props/Cxx.lean), axiom audit tool, compiled line-protocol drivers svdriver_cXX"},
  {"name": "go-harness", "path": "harness/overlay", "serves_properties": claimed,
   "kind_free_text": "in-package Go harnesses injected into /repo at build time with go test -overlay (tag verif); run the real code, emit canonical op/result streams, evaluate the property oracle on the implementation"}
 ],
 "checks": checks,
 "not_applicable": na,
 "notes": "One entry point: ./check Cxx --tier quick|thorough [--replay file]. See DESIGN.md."
}
json.dump(man, open(os.path.join(V, "MANIFEST.json"), "w"), indent=1)
print(f"claimed={claimed} not_applicable={[n['property_id'] for n in na]}")
