"""Shared machinery for the per-property checks (see DESIGN.md section 1.1).

Every check does, in this order:
  1. proof obligations   : lake build of SV.Props.Cxx + axiom audit (+ leanchecker in thorough)
  2. structural facts    : (optional) go/ast facts compared with expectations
  3. correspondence      : Go harness (real code, rebuilt from /repo) vs compiled Lean driver
  4. property oracle     : evaluated by the harness on the implementation's own answers
  5. verdict + evidence
"""
import fcntl
import hashlib
import json
import os
import re
import shutil
import subprocess
import sys
import time

VERIF = os.path.dirname(os.path.dirname(os.path.abspath(__file__)))
REPO = os.environ.get("VERIF_REPO", "/repo")
LEAN = os.path.join(VERIF, "lean")
BUILD = os.path.join(VERIF, "build")
OVERLAY_SRC = os.path.join(VERIF, "harness", "overlay")
# Evidence of the registered commands comes from /repo itself.  A run against a scratch tree
# (VERIF_REPO=<worktree>: mutation / seeded-change experiments) writes its evidence file under
# build/scratch-evidence instead, so it can never replace the evidence of the real tree; replay files
# of such runs still go to evidence/replays (untracked) because the experiment tools read them there.
EVID = os.path.join(VERIF, "evidence") if REPO == "/repo" else os.path.join(BUILD, "scratch-evidence")
REPLAYS = os.path.join(VERIF, "evidence", "replays")
KNOWN = os.path.join(VERIF, "findings", "known_findings.txt")

ALLOWED_AXIOMS = {"propext", "Classical.choice", "Quot.sound"}
BANNED = re.compile(r"sorry|admit|^\s*axiom\s|native_decide|bv_decide|implemented_by|unsafe\s|maxHeartbeats\s+0|@\[extern")

TRUSTED_BASE = [
    "Lean 4.33.0 kernel; axioms limited to propext, Classical.choice, Quot.sound (audited per theorem)",
    "Lean compiler (executes the model in the compiled svdriver during correspondence)",
    "hand-written Lean model of the Go code; tied to /repo by the differential correspondence only",
    "Go harness + overlay shims + canonicalisation + generators (coverage is bounded by the generators)",
    "Go runtime/stdlib and third-party libraries used by the modelled code",
]


def go_env():
    env = dict(os.environ)
    env["GOFLAGS"] = "-mod=mod"
    env["GOPROXY"] = "off"
    env.pop("GOSUMDB", None)
    if env.get("GOTOOLCHAIN") == "local":
        env.pop("GOTOOLCHAIN")
    return env


def sh(cmd, cwd=None, env=None, timeout=None, inp=None):
    p = subprocess.run(cmd, cwd=cwd, env=env, timeout=timeout, input=inp,
                       stdout=subprocess.PIPE, stderr=subprocess.STDOUT, text=True,
                       shell=isinstance(cmd, str))
    return p.returncode, p.stdout


class Lock:
    def __init__(self, name):
        os.makedirs(BUILD, exist_ok=True)
        self.path = os.path.join(BUILD, name + ".lock")

    def __enter__(self):
        self.f = open(self.path, "w")
        fcntl.flock(self.f, fcntl.LOCK_EX)
        return self

    def __exit__(self, *a):
        fcntl.flock(self.f, fcntl.LOCK_UN)
        self.f.close()


def load_known():
    known, fixed = [], []
    if os.path.exists(KNOWN):
        for line in open(KNOWN):
            line = line.strip()
            if not line or line.startswith("#"):
                continue
            m = re.match(r"known:\s+property=(\S+)\s+sig=(\S+)\s+(.*)", line)
            if m:
                known.append({"property": m.group(1), "sig": m.group(2), "what": m.group(3)})
                continue
            m = re.match(r"fixed:\s+property=(\S+)\s+(\S+)\s+(.*)", line)
            if m:
                fixed.append({"property": m.group(1), "commit": m.group(2), "what": m.group(3)})
    return known, fixed


class Ctx:
    def __init__(self, pid, tier, seed, replay=None):
        self.pid = pid
        self.tier = tier
        self.seed = seed
        self.replay = replay
        self.t0 = time.time()
        self.violations = []        # list of dict(replay=path, note=str)
        self.known_hits = {}        # sig -> what
        self.notes = []
        self.cov = {
            "obligations": 0, "discharged": 0, "checker_cmd": "", "trusted_base": list(TRUSTED_BASE),
            "evaluations": 0, "distinct_nontrivial": 0, "rule": "", "samples": [],
            "traces_validated_against_impl": 0, "theorems": [], "stats": {},
            "correspondence_mismatches": 0, "oracle_failures": 0, "facts_checked": 0,
        }
        self.assumptions = []
        self.broken = []            # names of broken proof obligations / ties
        self.known, self.fixed = load_known()
        os.makedirs(BUILD, exist_ok=True)
        os.makedirs(REPLAYS, exist_ok=True)
        self.workdir = os.path.join(BUILD, "run", f"{pid}-{os.getpid()}")
        shutil.rmtree(self.workdir, ignore_errors=True)
        os.makedirs(self.workdir)

    # ------------------------------------------------------------------ logging
    def log(self, *a):
        print(f"[{self.pid}]", *a, flush=True)

    # ------------------------------------------------------------------ step 1
    def lean_obligations(self, modules, drivers=()):
        """Build the property modules (+drivers), audit axioms of every theorem.
        Returns True when every obligation is discharged."""
        if isinstance(modules, str):
            modules = [modules]
        targets = list(modules) + ["SV.AuditTool"] + list(drivers)
        cmd_desc = f"cd lean && lake build {' '.join(targets)} && lake env lean <audit of {' '.join(modules)}>"
        ok = True
        with Lock("lake"):
            if getattr(self, "_regen_wanted", False):
                # regenerated tie: regenerate again under the SAME lock hold as the build, so that a
                # concurrent check running against another tree (VERIF_REPO) cannot swap SV/Gen/*
                # between generation and build
                self._regen_go2lean_locked(record=False)
            rc, out = sh(["lake", "build"] + targets, cwd=LEAN, timeout=3600)
            if rc != 0:
                ok = False
                self.log("lake build FAILED")
                print(out[-6000:])
                # name the theorems that no longer check (enclosing declaration of each error line)
                for fn_, ln_ in sorted(set(re.findall(r"^error: (SV/Props/\S+?\.lean):(\d+):", out, re.M))):
                    try:
                        lines_ = open(os.path.join(LEAN, fn_)).read().split("\n")[:int(ln_)]
                    except OSError:
                        continue
                    for l_ in reversed(lines_):
                        m_ = re.match(r"\s*(?:private\s+|protected\s+)?(?:theorem|example|def|lemma)\s+(\S+)", l_)
                        if m_:
                            nm_ = m_.group(1) if m_.group(1) != ":" else f"example(line {ln_})"
                            tag_ = f"lean-theorem:{fn_[:-5].replace('/', '.')}:{nm_}"
                            if tag_ not in self.broken:
                                self.broken.append(tag_)
                            break
                # which modules broke
                for m in re.findall(r"^- (\S+)", out, re.M):
                    self.broken.append(f"lean-build:{m}")
                if not self.broken:
                    self.broken.append("lean-build")
            # audit all modules together; if that fails (one module does not build) audit them one
            # by one so that the obligations of the modules that still build are counted
            def audit(mods, tag):
                audit_src = os.path.join(self.workdir, f"audit{tag}.lean")
                with open(audit_src, "w") as f:
                    f.write("import SV.AuditTool\n")
                    for m in mods:
                        f.write(f"import {m}\n")
                    for m in mods:
                        f.write(f"#audit_module {m}\n")
                return sh(["lake", "env", "lean", audit_src], cwd=LEAN, timeout=1800)
            rc2, aout = audit(modules, "")
            if rc2 != 0 and len(modules) > 1:
                aout_all, rc2 = "", 0
                for i, m in enumerate(modules):
                    r, o = audit([m], str(i))
                    if r != 0:
                        self.broken.append(f"lean-audit:{m}")
                        ok = False
                    else:
                        aout_all += o
                aout = aout_all
            if self.tier == "thorough" and rc == 0:
                rc3, cout = sh(["lake", "env", "leanchecker"] + list(modules), cwd=LEAN, timeout=3600)
                cmd_desc += f" && lake env leanchecker {' '.join(modules)}"
                self.cov["leanchecker_rc"] = rc3
                if rc3 != 0:
                    ok = False
                    self.broken.append("leanchecker")
                    print(cout[-3000:])
        thms = []
        for m in re.finditer(r"AUDIT (\S+) axioms=\[(.*?)\]", aout):
            axs = [a.strip() for a in m.group(2).split(",") if a.strip()]
            bad = [a for a in axs if a not in ALLOWED_AXIOMS]
            thms.append({"name": m.group(1), "axioms": axs, "ok": not bad})
            if bad:
                ok = False
                self.broken.append(f"axioms:{m.group(1)}:{','.join(bad)}")
        if rc2 != 0 and rc == 0:
            ok = False
            self.broken.append("lean-audit")
            print(aout[-3000:])
        # banned tokens in the sources this property depends on (transitive SV.* imports of its
        # modules and drivers; comments stripped)
        banned_hits = []
        todo = list(modules) + [f"SV.Driver.{d.split('_')[-1].upper()}" for d in drivers]
        seen = set()
        while todo:
            m = todo.pop()
            if m in seen or not m.startswith("SV") or m == "SV.AuditTool":
                continue
            seen.add(m)
            fn = os.path.join(LEAN, *m.split(".")) + ".lean"
            if not os.path.exists(fn):
                continue
            src = open(fn).read()
            for im in re.findall(r"^\s*import\s+(\S+)", src, re.M):
                todo.append(im)
            src = re.sub(r"/-.*?-/", "", src, flags=re.S)
            for line in src.split("\n"):
                line = re.sub(r"--.*", "", line)
                if BANNED.search(line):
                    banned_hits.append(f"{os.path.basename(fn)}:{line.strip()[:80]}")
        self.cov["lean_sources_scanned"] = sorted(seen)
        if banned_hits:
            ok = False
            self.broken.append("banned-token:" + banned_hits[0])
        self.cov["obligations"] += len(thms)
        self.cov["discharged"] += sum(1 for t in thms if t["ok"]) if rc == 0 and not banned_hits else 0
        self.cov["theorems"] += [t["name"] for t in thms]
        self.cov["axioms_used"] = sorted(set(self.cov.get("axioms_used", [])) | {a for t in thms for a in t["axioms"]})
        self.cov["checker_cmd"] = cmd_desc
        if not thms:
            ok = False
            self.broken.append("no-theorems-found")
        self.log(f"proof obligations: {self.cov['discharged']}/{self.cov['obligations']} discharged"
                 + ("" if ok else f"  BROKEN: {self.broken}"))
        return ok

    # ------------------------------------------------------------------ regenerated tie
    # area -> specs; one generated file lean/SV/Gen/<Area>.lean per area.
    # spec = <file>:<func>[:<leanName>] | <file>:=<CONST>[:<leanName>]   (see tools/go2lean/main.go)
    # Area "Arith" keeps the namespace SV.Gen (its theorems are Props/C06gen, C04gen); every other
    # area lives in SV.Gen.<Area>.
    GO2LEAN_SPECS = {
        "Arith": [
            "fs/remote/blob.go:floor:remote_floor", "fs/remote/blob.go:ceil:remote_ceil",
            "fs/remote/blob.go:positive:remote_positive", "fs/remote/util.go:region.size:remote_region_size",
            "fs/reader/reader.go:chunkContains:reader_chunkContains", "fs/reader/reader.go:positive:reader_positive",
            "estargz/estargz.go:positive:estargz_positive",
            "cmd/containerd-stargz-grpc/db/reader.go:positive:db_positive",
        ],
        "Remote": [   # theorems: Props/C06gen2
            "fs/remote/util.go:region.size:region_size", "fs/remote/util.go:regionSet.totalSize:totalSize",
            "fs/remote/util.go:superRegion:superRegion",
        ],
        "Fs": [       # theorems: Props/C07gen2
            "fs/layer/node.go:fileModeToSystemMode:fileModeToSystemMode",
            "fs/layer/node.go:=blockSize", "fs/layer/node.go:=physicalBlockSize", "fs/layer/node.go:=physicalBlockRatio",
            "fs/layer/node.go:=whiteoutPrefix", "fs/layer/node.go:=whiteoutOpaqueDir", "fs/layer/node.go:=opaqueXattrValue",
            "fs/layer/node.go:=stateDirName", "fs/layer/node.go:=statFileMode", "fs/layer/node.go:=stateDirMode",
        ],
        "Estargz": [  # theorems: Props/C04gen2 (footer sizes), C03gen2 + C07gen2 (reserved names), C14gen2 (writer)
            "estargz/types.go:=FooterSize", "estargz/types.go:=legacyFooterSize", "estargz/types.go:=TOCTarName",
            "estargz/types.go:=PrefetchLandmark", "estargz/types.go:=NoPrefetchLandmark", "estargz/types.go:=landmarkContents",
            "estargz/zstdchunked/zstdchunked.go:=FooterSize:zstdFooterSize",
            "estargz/externaltoc/externaltoc.go:=FooterSize:extFooterSize",
            "estargz/gzip.go:GzipDecompressor.FooterSize:gzipDecompressor_FooterSize",
            "estargz/gzip.go:LegacyGzipDecompressor.FooterSize:legacyGzipDecompressor_FooterSize",
            "estargz/zstdchunked/zstdchunked.go:Decompressor.FooterSize:zstdDecompressor_FooterSize",
            "estargz/externaltoc/externaltoc.go:GzipDecompressor.FooterSize:extDecompressor_FooterSize",
            "estargz/estargz.go:Writer.chunkSize:writer_chunkSize",
        ],
        "Labels": [   # theorems: Props/C20gen2
            "fs/source/source.go:=targetRefLabel", "fs/source/source.go:=targetDigestLabel",
            "fs/source/source.go:=targetImageLayersLabel", "fs/source/source.go:=targetImageURLsLabelPrefix",
            "fs/source/source.go:=targetURLsLabel", "fs/config/config.go:=TargetPrefetchSizeLabel",
            "service/cri.go:=targetRefLabel:criTargetRefLabel", "service/cri.go:=targetLayerDigestLabel:criTargetLayerDigestLabel",
            "service/cri.go:=targetImageLayersLabel:criTargetImageLayersLabel",
            "service/cri.go:=targetImageURLsLabelPrefix:criTargetImageURLsLabelPrefix",
            "service/cri.go:=targetURLsLabel:criTargetURLsLabel",
        ],
    }

    def regen_go2lean(self):
        """Translate the small pure functions and the constants listed in GO2LEAN_SPECS from the
        CURRENT /repo sources to Lean (tools/go2lean) into lean/SV/Gen/<Area>.lean.  A function or
        constant that left the translatable subset or disappeared is a broken tie: its definition
        is omitted from the generated file (the theorem about it stops building and names it) and
        the translator's message naming it is recorded.  Files are rewritten only when their
        content changes (so lake does not rebuild needlessly); stale generated files are removed.
        Callers then build the SV.Props.*gen* modules."""
        self._regen_wanted = True
        with Lock("lake"):
            return self._regen_go2lean_locked(record=True)

    def _regen_go2lean_locked(self, record=True):
        """Body of regen_go2lean; the caller holds the lake lock.  record=False: only rewrite the
        files (failures were already recorded by the first call)."""
        if True:
            binp = os.path.join(BUILD, "go2lean")
            rc, o = sh(["go", "build", "-o", binp, "."], cwd=os.path.join(VERIF, "tools", "go2lean"), env=go_env(), timeout=600)
            if rc != 0:
                if record:
                    self.broken.append("go2lean-build")
                    print(o[-2000:])
                return False
            tmp = os.path.join(self.workdir, "gen")
            shutil.rmtree(tmp, ignore_errors=True)
            os.makedirs(tmp)
            argv = [binp, "-out", tmp, REPO]
            for area, specs in self.GO2LEAN_SPECS.items():
                argv += ["@" + area] + list(specs)
            env = go_env()
            rcg, groot = sh(["go", "env", "GOROOT"], cwd=os.path.join(VERIF, "tools", "go2lean"), env=env, timeout=120)
            if rcg == 0 and groot.strip():
                env["GOROOT"] = groot.strip().split("\n")[-1]
            p = subprocess.run(argv, stdout=subprocess.PIPE, stderr=subprocess.PIPE, text=True, env=env)
            ok = p.returncode == 0
            if not ok and record:
                msgs = [l for l in p.stderr.strip().split("\n") if l.startswith("go2lean:") and " note: " not in l]
                for l in msgs[:6] or [p.stderr.strip()[-200:]]:
                    self.broken.append(l.strip()[:240])
                self.log("go2lean FAILED:", p.stderr.strip()[-1500:])
            gdir = os.path.join(LEAN, "SV", "Gen")
            os.makedirs(gdir, exist_ok=True)
            produced = set()
            for area in self.GO2LEAN_SPECS:
                srcf = os.path.join(tmp, area + ".lean")
                if not os.path.exists(srcf):
                    continue
                produced.add(area + ".lean")
                new = open(srcf).read()
                dst = os.path.join(gdir, area + ".lean")
                old = open(dst).read() if os.path.exists(dst) else None
                if old != new:
                    with open(dst, "w") as f:
                        f.write(new)
                    self.log(f"regenerated SV/Gen/{area}.lean from the Go sources of {REPO} (content changed)")
            if p.returncode in (0, 1):
                for fn in os.listdir(gdir):
                    if fn.endswith(".lean") and fn not in produced:
                        os.remove(os.path.join(gdir, fn))
                        self.log(f"removed stale generated file SV/Gen/{fn}")
            self.cov["translated_functions"] = sum(len(v) for v in self.GO2LEAN_SPECS.values())
        return ok

    # ------------------------------------------------------------------ step 3 helpers
    def overlay_json(self, only=None):
        """Mirror harness/overlay/** into /repo/** (virtually).
        Non-test files are always included.  Test files named zz_verif_<tag>_test.go are included
        only when <tag> starts with one of `only` (default: this property's id, lower case) or
        with "common" -- so that a harness of another property in the same package can never
        break this property's build."""
        if only is None:
            only = [self.pid.lower()]
        only = [o.lower() for o in only] + ["common"]
        rep = {}
        for root, _, files in os.walk(OVERLAY_SRC):
            for fn in files:
                if fn.endswith(".go") or fn.endswith(".s"):
                    if fn.endswith("_test.go"):
                        m = re.match(r"zz_verif_([a-z0-9]+)", fn)
                        if not m or not any(m.group(1).startswith(o) for o in only):
                            continue
                    src = os.path.join(root, fn)
                    rel = os.path.relpath(src, OVERLAY_SRC)
                    rep[os.path.join(REPO, rel)] = src
                    # the estargz module cannot import the root module's packages: give it its
                    # own copy of the dependency-free helper package
                    # (import path github.com/containerd/stargz-snapshotter/estargz/internal/verifutil)
                    if rel.startswith(os.path.join("internal", "verifutil") + os.sep):
                        rep[os.path.join(REPO, "estargz", rel)] = src
        path = os.path.join(self.workdir, "overlay.json")
        with open(path, "w") as f:
            json.dump({"Replace": rep}, f, indent=1)
        return path

    def go_test_binary(self, pkg, name, module_dir="", race=False, tags="verif", only=None):
        """Compile the test binary of /repo/<module_dir>/<pkg> with overlay + tags.
        Returns path or None (build failure = broken tie)."""
        out = os.path.join(self.workdir, name)
        cmd = ["go", "test", "-c", "-vet=off", "-tags", tags, "-overlay", self.overlay_json(only), "-o", out]
        if race:
            cmd.append("-race")
        if os.environ.get("VERIF_COVER"):
            # measurement only (tools/mutsweep.py): which lines of /repo does this harness execute
            pk = []
            for md in ("", "estargz", "cmd"):
                rc_, o_ = sh(["go", "list", "./..."], cwd=os.path.join(REPO, md), env=go_env(), timeout=600)
                pk += [l for l in o_.split() if l.startswith("github.com/containerd/stargz-snapshotter")]
            cmd += ["-cover", "-coverpkg=" + ",".join(sorted(set(pk)))]
        cmd.append("./" + pkg)
        cwd = os.path.join(REPO, module_dir)
        t = time.time()
        rc, o = sh(cmd, cwd=cwd, env=go_env(), timeout=3600)
        if rc != 0 or not os.path.exists(out):
            self.log(f"harness build FAILED for {pkg}")
            print(o[-6000:])
            self.broken.append(f"harness-build:{pkg}")
            return None
        self.log(f"built harness {pkg} in {time.time()-t:.1f}s")
        return out

    def run_harness(self, binary, test, tag, env=None, timeout=1800, cwd=None):
        """Run one harness test function.  Returns (ops, impl, report-dict) or None on crash."""
        base = os.path.join(self.workdir, tag)
        e = dict(os.environ)
        e["VERIF_SEED"] = str(self.seed)
        e["VERIF_TIER"] = self.tier
        e["VERIF_OUT"] = base
        e["VERIF_WORK"] = self.workdir
        if env:
            e.update({k: str(v) for k, v in env.items()})
        argv = [binary, "-test.run", f"^{test}$", "-test.count=1", "-test.timeout", f"{timeout}s"]
        if os.environ.get("VERIF_COVER"):
            os.makedirs(os.environ["VERIF_COVER"], exist_ok=True)
            argv.append("-test.coverprofile=" + os.path.join(
                os.environ["VERIF_COVER"], f"{self.pid}-{tag}-{int(time.time()*1000)}.out"))
        try:
            rc, o = sh(argv, env=e, timeout=timeout + 60, cwd=cwd or self.workdir)
        except subprocess.TimeoutExpired:
            rc, o = 124, "timeout"
        rep = {}
        if os.path.exists(base + ".json"):
            try:
                rep = json.load(open(base + ".json"))
            except Exception:
                rep = {}
        if rc != 0:
            self.log(f"harness {test} exited {rc}")
            print(o if len(o) <= 9000 else o[:3500] + "\n[...]\n" + o[-5000:])
            rep.setdefault("crashed", True)
            rep["crash_output"] = o if len(o) <= 9000 else o[:3500] + "\n[...]\n" + o[-5000:]
        if "no tests to run" in o:
            self.broken.append(f"harness-missing:{test}")
        return base + ".ops", base + ".impl", rep

    def run_driver(self, exe, ops_path, tag=None):
        out_path = (ops_path[:-4] if ops_path.endswith(".ops") else ops_path) + ".model"
        binp = os.path.join(LEAN, ".lake", "build", "bin", exe)
        with open(ops_path) as fin, open(out_path, "w") as fout:
            p = subprocess.run([binp], stdin=fin, stdout=fout, stderr=subprocess.PIPE, timeout=3600)
        if p.returncode != 0:
            self.broken.append(f"driver-crash:{exe}")
            self.log("driver crashed:", p.stderr.decode()[-2000:])
        return out_path

    def diff_streams(self, ops_path, impl_path, model_path, limit=5):
        ops = open(ops_path).read().split("\n")
        impl = open(impl_path).read().split("\n")
        model = open(model_path).read().split("\n")
        mism = []
        n = max(len(impl), len(model))
        nops = 0
        for i in range(n):
            a = impl[i] if i < len(impl) else "<missing>"
            b = model[i] if i < len(model) else "<missing>"
            if i < len(ops) and ops[i] and not ops[i].startswith("#"):
                nops += 1
            if a != b:
                if len(mism) < limit:
                    # context: ops since the last reset-like comment, capped
                    lo = max(0, i - 40)
                    mism.append({"line": i + 1, "op": ops[i] if i < len(ops) else None,
                                 "impl": a, "model": b, "context_ops": ops[lo:i + 1]})
                else:
                    mism.append(None)
        return nops, [m for m in mism if m], len(mism)

    def correspond(self, binary, test, exe, tag, env=None, timeout=1800):
        """harness run + driver run + diff + oracle report.  Updates coverage, records
        violations.  Returns the harness report."""
        ops, impl, rep = self.run_harness(binary, test, tag, env=env, timeout=timeout)
        if rep.get("crashed"):
            self.add_violation({"kind": "harness-crash", "test": test, "seed": self.seed, "env": env,
                                "output": rep.get("crash_output", "")}, sig=f"crash:{test}")
        if not os.path.exists(ops):
            return rep
        model = self.run_driver(exe, ops)
        nops, mism, nm = self.diff_streams(ops, impl, model)
        self.cov["evaluations"] += nops
        self.cov["traces_validated_against_impl"] += nops - nm
        self.cov["distinct_nontrivial"] += int(rep.get("distinct_nontrivial", 0))
        for s in (rep.get("samples") or [])[:4]:
            if len(self.cov["samples"]) < 12:
                self.cov["samples"].append(s)
        st = self.cov["stats"].setdefault(tag, {})
        for k, v in (rep.get("stats") or {}).items():
            st[k] = st.get(k, 0) + v
        self.cov["correspondence_mismatches"] += nm
        fails = rep.get("oracle_failures") or []
        self.cov["oracle_failures"] += len(fails)
        # oracle failures = concrete failing inputs
        seen = set()
        for f in fails:
            if f["sig"] in seen:
                continue
            seen.add(f["sig"])
            self.add_violation({"kind": "oracle", "test": test, "seed": self.seed, "env": env,
                                "failure": f, "all_failures": fails[:20]}, sig=f["sig"])
        # a mismatch is excused only by a NEW concrete failing input of this run; oracle failures that
        # are listed known findings must not hide a broken correspondence
        new_fails = [f for f in fails if not self.is_known(f["sig"])]
        if nm and not new_fails:
            # A disagreement with a silent oracle must REPRODUCE to count: several streams drive real
            # goroutines (race outcomes are linearised by the harness), and a one-off disagreement that a
            # second run with the same seed does not show is an artefact of one schedule, not evidence
            # about the code (met once on the unchanged tree: C01, fresh sandbox, 1 line in 5910).  A
            # deterministic disagreement reproduces and is reported as before; concrete property
            # violations never pass through here (they are oracle failures).
            ops2, impl2, rep2 = self.run_harness(binary, test, tag + "-rerun", env=env, timeout=timeout)
            nm2, mism2, fails2 = -1, [], []
            if os.path.exists(ops2) and not rep2.get("crashed"):
                model2 = self.run_driver(exe, ops2)
                _, mism2, nm2 = self.diff_streams(ops2, impl2, model2)
                fails2 = [f for f in (rep2.get("oracle_failures") or []) if not self.is_known(f["sig"])]
            if nm2 == 0 and not fails2:
                self.cov["correspondence_mismatches"] -= nm
                self.cov.setdefault("unreproduced_mismatches", []).append(
                    {"tag": tag, "count": nm, "first": mism[:1]})
                self.notes.append(f"{nm} correspondence mismatch(es) in {tag} did not reproduce on a re-run "
                                  f"with the same seed (schedule-dependent stream); recorded, not counted")
                return rep
            for f in fails2:
                self.add_violation({"kind": "oracle", "test": test, "seed": self.seed, "env": env,
                                    "failure": f, "all_failures": fails2[:20]}, sig=f["sig"])
            self.broken.append(f"correspondence:{tag}")
            self.pending_mismatch = {"kind": "correspondence", "test": test, "seed": self.seed, "env": env,
                                     "mismatches": mism, "count": nm, "rerun_mismatches": mism2[:3], "rerun_count": nm2}
        elif nm:
            self.notes.append(f"{nm} correspondence mismatches in {tag} (oracle failures present)")
        return rep

    # ------------------------------------------------------------------ verdict
    def is_known(self, sig):
        for k in self.known:
            if k["property"] == self.pid and k["sig"] == sig:
                return k
        return None

    def add_violation(self, obj, sig):
        k = self.is_known(sig)
        if k:
            self.known_hits[sig] = k["what"]
            return
        obj["property"] = self.pid
        obj["sig"] = sig
        obj["tier"] = self.tier
        h = hashlib.sha1(json.dumps(obj, sort_keys=True, default=str).encode()).hexdigest()[:10]
        path = os.path.join(REPLAYS, f"{self.pid}-{self.seed}-{h}.json")
        with open(path, "w") as f:
            json.dump(obj, f, indent=1, default=str)
        self.violations.append({"replay": path, "sig": sig, "no_input": False})

    def finish(self, level="proof", rule="", assumptions=None, extra=None):
        # broken proof / tie without a failing input
        concrete = [v for v in self.violations]
        if self.broken and not concrete:
            obj = {"property": self.pid, "kind": "broken-obligation-or-tie", "broken": self.broken,
                   "seed": self.seed, "tier": self.tier,
                   "detail": getattr(self, "pending_mismatch", None),
                   "note": "no concrete failing input found within this tier's budget; the named "
                           "theorem / correspondence no longer checks, so the property is not shown to hold"}
            path = os.path.join(REPLAYS, f"{self.pid}-{self.seed}-broken.json")
            with open(path, "w") as f:
                json.dump(obj, f, indent=1, default=str)
            self.violations.append({"replay": path, "sig": "broken", "no_input": True})
        for sig, what in sorted(self.known_hits.items()):
            print(f"KNOWN-FINDING: property={self.pid} {sig} {what}", flush=True)
        # known findings that no longer reproduce are reported as notes
        for k in self.known:
            if k["property"] == self.pid and k["sig"] not in self.known_hits and getattr(self, "expect_known", True):
                self.notes.append(f"known finding {k['sig']} did not reproduce in this run")
        self.cov["rule"] = rule or self.cov["rule"]
        self.cov["broken"] = self.broken
        self.cov["known_findings_hit"] = sorted(self.known_hits)
        self.cov["notes"] = self.notes
        if extra:
            self.cov.update(extra)
        ev = {
            "property_id": self.pid, "tier": self.tier, "seed": int(self.seed), "level": level,
            "coverage": self.cov, "assumptions": assumptions or self.assumptions,
            "wall_s": round(time.time() - self.t0, 2), "violations": len(self.violations),
        }
        os.makedirs(EVID, exist_ok=True)
        with open(os.path.join(EVID, f"{self.pid}.json"), "w") as f:
            json.dump(ev, f, indent=1, default=str)
        shutil.rmtree(self.workdir, ignore_errors=True)
        for v in self.violations:
            tail = " no-failing-input-found" if v["no_input"] else ""
            print(f"VIOLATION property={self.pid} replay={v['replay']}{tail}", flush=True)
        self.log(f"done in {ev['wall_s']}s: obligations {self.cov['discharged']}/{self.cov['obligations']}, "
                 f"{self.cov['evaluations']} ops compared, {self.cov['correspondence_mismatches']} mismatches, "
                 f"{self.cov['oracle_failures']} oracle failures, {len(self.violations)} violations")
        return 1 if self.violations else 0
