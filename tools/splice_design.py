#!/usr/bin/env python3
"""Regenerate the generated parts of DESIGN.md section 11 in place:
  11.1 + 11.2  (between the headings "### 11.1" and "### 11.3")
  11.3         (from manifest.d, between "### 11.3" and "### 11.4")
  11.5 + 11.6  (between the markers <!-- BEGIN GENERATED 11.5-11.6 --> and <!-- END … -->)"""
import os, re, subprocess, sys
V = os.path.dirname(os.path.dirname(os.path.abspath(__file__)))
out = subprocess.run([sys.executable, os.path.join(V, "tools", "mkreport.py"), "--extra"], stdout=subprocess.PIPE, text=True, check=True).stdout
i = out.index("### 11.5 ")
a, b = out[:i].rstrip() + "\n\n", out[i:].rstrip() + "\n"
p = os.path.join(V, "DESIGN.md")
s = open(p).read()
i1, i3 = s.index("### 11.1 Per-property status"), s.index("### 11.3 What each check claims")
s = s[:i1] + a + s[i3:]
B, E = "<!-- BEGIN GENERATED 11.5-11.6 -->", "<!-- END GENERATED 11.5-11.6 -->"
if B in s:
    s = s[:s.index(B) + len(B)] + "\n" + b + s[s.index(E):]
# 11.3 from manifest.d
import json, glob
parts = ["### 11.3 What each check claims and what it leaves to the trusted base (from manifest.d)\n"]
for f in sorted(glob.glob(os.path.join(V, "manifest.d", "C*.json"))):
    d = json.load(open(f))
    lc = d["level_claimed"]
    parts.append(f"**{d['property_id']}** — *{lc['category']}* — {lc['text']}\n\n  Trusted / outside the model: {d.get('level_note', '')}\n")
i3, i4 = s.index("### 11.3 What each check claims"), s.index("### 11.4 Trusted base")
s = s[:i3] + "\n".join(parts) + "\n" + s[i4:]
open(p, "w").write(s)
print("DESIGN.md tables regenerated")
