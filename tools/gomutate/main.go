// gomutate: a tiny mechanical mutation generator for Go source files (stdlib only).
//
//	gomutate list  <file.go>            one JSON object per line: {id,kind,line,func,orig,repl}
//	gomutate apply <file.go> <id>       mutated file on stdout
//
// It is used by tools/mutsweep.py to measure which single-token / single-statement changes to the
// anchored code the property checks notice.  It is NOT part of any check.
package main

import (
	"encoding/json"
	"fmt"
	"go/ast"
	"go/parser"
	"go/token"
	"os"
	"sort"
	"strconv"
)

type mutant struct {
	ID    int    `json:"id"`
	Kind  string `json:"kind"`
	Line  int    `json:"line"`
	Func  string `json:"func"`
	Orig  string `json:"orig"`
	Repl  string `json:"repl"`
	start int
	end   int
}

var swap = map[token.Token]string{
	token.LSS: "<=", token.LEQ: "<", token.GTR: ">=", token.GEQ: ">",
	token.EQL: "!=", token.NEQ: "==", token.LAND: "||", token.LOR: "&&",
	token.ADD: "-", token.SUB: "+",
}

func main() {
	if len(os.Args) < 3 {
		fmt.Fprintln(os.Stderr, "usage: gomutate list|apply file [id]")
		os.Exit(2)
	}
	src, err := os.ReadFile(os.Args[2])
	if err != nil {
		panic(err)
	}
	fset := token.NewFileSet()
	f, err := parser.ParseFile(fset, os.Args[2], src, parser.ParseComments)
	if err != nil {
		panic(err)
	}
	var ms []mutant
	off := func(p token.Pos) int { return fset.Position(p).Offset }
	add := func(kind, fn string, s, e token.Pos, repl string) {
		so, eo := off(s), off(e)
		o := string(src[so:eo])
		if len(o) > 160 {
			o = o[:160] + "…"
		}
		ms = append(ms, mutant{Kind: kind, Line: fset.Position(s).Line, Func: fn, Orig: o, Repl: repl, start: so, end: eo})
	}
	for _, d := range f.Decls {
		fd, ok := d.(*ast.FuncDecl)
		if !ok || fd.Body == nil {
			continue
		}
		name := fd.Name.Name
		if fd.Recv != nil && len(fd.Recv.List) > 0 {
			t := fd.Recv.List[0].Type
			if st, ok := t.(*ast.StarExpr); ok {
				t = st.X
			}
			if ix, ok := t.(*ast.IndexExpr); ok {
				t = ix.X
			}
			if id, ok := t.(*ast.Ident); ok {
				name = id.Name + "." + name
			}
		}
		ast.Inspect(fd.Body, func(n ast.Node) bool {
			switch x := n.(type) {
			case *ast.BinaryExpr:
				if r, ok := swap[x.Op]; ok {
					// skip string concatenation-ish "+" on literals
					if x.Op == token.ADD || x.Op == token.SUB {
						if bl, ok := x.X.(*ast.BasicLit); ok && bl.Kind == token.STRING {
							break
						}
						if bl, ok := x.Y.(*ast.BasicLit); ok && bl.Kind == token.STRING {
							break
						}
					}
					add("binop", name, x.OpPos, x.OpPos+token.Pos(len(x.Op.String())), r)
				}
			case *ast.IfStmt:
				c := string(src[off(x.Cond.Pos()):off(x.Cond.End())])
				add("ifneg", name, x.Cond.Pos(), x.Cond.End(), "!("+c+")")
				add("iffalse", name, x.Cond.Pos(), x.Cond.End(), "false && ("+c+")")
			case *ast.BlockStmt:
				for _, s := range x.List {
					switch st := s.(type) {
					case *ast.ExprStmt:
						if _, ok := st.X.(*ast.CallExpr); ok {
							add("delstmt", name, st.Pos(), st.End(), "{}")
						}
					case *ast.AssignStmt:
						if st.Tok != token.DEFINE {
							add("delstmt", name, st.Pos(), st.End(), "{}")
						}
					case *ast.IncDecStmt:
						add("delstmt", name, st.Pos(), st.End(), "{}")
					case *ast.DeferStmt:
						add("delstmt", name, st.Pos(), st.End(), "{}")
					}
				}
			case *ast.CaseClause:
				for _, s := range x.Body {
					switch st := s.(type) {
					case *ast.ExprStmt:
						if _, ok := st.X.(*ast.CallExpr); ok {
							add("delstmt", name, st.Pos(), st.End(), "{}")
						}
					case *ast.AssignStmt:
						if st.Tok != token.DEFINE {
							add("delstmt", name, st.Pos(), st.End(), "{}")
						}
					}
				}
			case *ast.BasicLit:
				if x.Kind == token.INT {
					if v, err := strconv.ParseInt(x.Value, 0, 64); err == nil && v < 1<<40 {
						add("intlit", name, x.Pos(), x.End(), strconv.FormatInt(v+1, 10))
					}
				}
			}
			return true
		})
	}
	sort.SliceStable(ms, func(i, j int) bool { return ms[i].start < ms[j].start })
	for i := range ms {
		ms[i].ID = i
	}
	switch os.Args[1] {
	case "list":
		enc := json.NewEncoder(os.Stdout)
		for _, m := range ms {
			enc.Encode(m)
		}
	case "apply":
		id, _ := strconv.Atoi(os.Args[3])
		if id < 0 || id >= len(ms) {
			fmt.Fprintln(os.Stderr, "no such mutant")
			os.Exit(1)
		}
		m := ms[id]
		os.Stdout.Write(src[:m.start])
		os.Stdout.WriteString(m.Repl)
		os.Stdout.Write(src[m.end:])
	}
}
