module gomutate

go 1.23
