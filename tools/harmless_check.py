#!/usr/bin/env python3
"""Run a check against a HARMLESS change (one that keeps the property) and record whether it
stays silent.  usage: harmless_check.py /tmp/harmout-cXX/H1
Stores /verif/seeded_harmless/<Cxx>-<Hn>/{patch.diff, meta.json}; may be re-run in place on such a
directory (the first recorded result is kept as "first_run")."""
import json, os, re, shutil, subprocess, sys, tempfile
VERIF = os.path.dirname(os.path.dirname(os.path.abspath(__file__)))

def sh(cmd, cwd=None, env=None, timeout=3600):
    e = dict(os.environ); e["GOFLAGS"] = "-mod=mod"; e["GOPROXY"] = "off"
    if env: e.update(env)
    p = subprocess.run(cmd, cwd=cwd, shell=True, env=e, timeout=timeout, stdout=subprocess.PIPE, stderr=subprocess.STDOUT, text=True)
    return p.returncode, p.stdout

def main():
    src = sys.argv[1].rstrip("/")
    meta = json.load(open(os.path.join(src, "meta.json")))
    pid, var = meta["property"], meta["variant"]
    wt = tempfile.mkdtemp(prefix=f"hc-{pid}{var}-", dir="/tmp"); os.rmdir(wt)
    log = {}
    try:
        rc, o = sh(f"git -C /repo worktree add -q {wt} HEAD"); assert rc == 0, o
        rc, o = sh(f"git -C {wt} apply {src}/patch.diff")
        log["patch_applies"] = rc == 0
        if rc != 0:
            log["apply_output"] = o[-500:]
        else:
            rc, o = sh(f"./check {pid}", cwd=VERIF, env={"VERIF_REPO": wt})
            viol = [l for l in o.split("\n") if l.startswith("VIOLATION")]
            log["check_exit"] = rc
            log["violation_lines"] = viol
            det = []
            for v in viol:
                m = re.search(r"replay=(\S+)", v)
                if m and os.path.exists(m.group(1)):
                    try:
                        d = json.load(open(m.group(1)))
                        det.append({"sig": d.get("sig"), "broken": d.get("broken"), "detail": str(d.get("failure") or d.get("detail"))[:1500]})
                        os.remove(m.group(1))
                    except Exception:
                        pass
            log["alarm_details"] = det
            log["silent"] = (rc == 0 and not viol)
            log["tail"] = o[-600:]
        rc_, base = sh("git -C /repo log -1 --format=%h"); log["repo_head"] = base.strip()
        dst = os.path.join(VERIF, "seeded_harmless", f"{pid}-{var}")
        os.makedirs(dst, exist_ok=True)
        if os.path.abspath(src) != os.path.abspath(dst):
            shutil.copy(os.path.join(src, "patch.diff"), dst)
        if "checked_by_lead" in meta and "first_run" not in meta:
            meta["first_run"] = meta["checked_by_lead"]   # result before the checks were hardened
        meta["checked_by_lead"] = log
        json.dump(meta, open(os.path.join(dst, "meta.json"), "w"), indent=1)
        brief = {k: v for k, v in log.items() if k not in ("tail",)}
        print(json.dumps(brief)[:1800])
    finally:
        sh(f"git -C /repo worktree remove --force {wt}")
        shutil.rmtree(wt, ignore_errors=True)
main()
