#!/usr/bin/env python3
"""Mechanical mutation sweep: how many single-token / single-statement changes to the code a
property is anchored in does its check notice?

usage: mutsweep.py Cxx [--n 20] [--seed 1] [--files f1.go,f2.go] [--more | --recheck] [--anchors]
       --more    : add n further mutants to an existing mutation/Cxx.jsonl
       --recheck : re-run only the mutants recorded as silent (after strengthening a check)

1. coverage  : VERIF_COVER=build/cover/Cxx ./check Cxx on /repo (once) -> lines of /repo the harness executes
2. mutants   : tools/gomutate on the property's anchor files (properties.jsonl anchors.files), restricted to
               executed lines, minus logging / lock / hook statements; a seeded sample of n that compile
3. per mutant (scratch worktree /tmp/mut-cxx, removed at the end):
               VERIF_REPO=<wt> ./check Cxx  -> detected?   (timeout counts as detected: hang)
               if silent: the package's own tests -> killed by the existing suite or survivor
4. result    : /verif/mutation/Cxx.jsonl (one record per mutant) and a summary line

A silent survivor is NOT automatically a miss: many mutants are equivalent or do not touch the
property.  They are triaged by hand (mutation/TRIAGE.md).
This tool is measurement only; it is not part of any registered check.
"""
import json, os, random, re, signal, subprocess, sys, time, glob, shutil

VERIF = os.path.dirname(os.path.dirname(os.path.abspath(__file__)))
REPO = "/repo"
PREFIX = "github.com/containerd/stargz-snapshotter/"
SKIP = re.compile(r"verif|\.Lock\(\)|\.Unlock\(\)|\.RLock\(\)|\.RUnlock\(\)|log\.G\(|\.Debugf?\(|\.Warnf?\(|\.Infof?\(|"
                  r"\.WithError\(|\.WithField|fmt\.Print|Errorf|errors\.New|metrics\.|commonmetrics\.|\.Close\(\)$")


def env():
    e = dict(os.environ)
    e["GOFLAGS"] = "-mod=mod"
    e["GOPROXY"] = "off"
    return e


def run(cmd, cwd=None, timeout=None, extra=None):
    e = env()
    if extra:
        e.update(extra)
    p = subprocess.Popen(cmd, cwd=cwd, env=e, shell=isinstance(cmd, str), stdout=subprocess.PIPE,
                         stderr=subprocess.STDOUT, text=True, start_new_session=True)
    try:
        o, _ = p.communicate(timeout=timeout)
        return p.returncode, o
    except subprocess.TimeoutExpired:
        try:
            os.killpg(p.pid, signal.SIGKILL)
        except Exception:
            pass
        o, _ = p.communicate()
        return 124, (o or "") + "\nTIMEOUT"


def module_of(rel):
    d = os.path.dirname(rel)
    while d:
        if os.path.exists(os.path.join(REPO, d, "go.mod")):
            return d
        d = os.path.dirname(d)
    return ""


def covered_lines(pid):
    cdir = os.path.join(VERIF, "build", "cover", pid)
    if not glob.glob(cdir + "/*.out"):
        print(f"[{pid}] measuring coverage …", flush=True)
        # the cover tool opens source files by path and ignores -overlay: run in a scratch worktree in
        # which the non-test overlay files that live inside real /repo packages exist physically
        cw = f"/tmp/cov-{pid.lower()}"
        run(f"git -C {REPO} worktree remove --force {cw}")
        shutil.rmtree(cw, ignore_errors=True)
        rc, o = run(f"git -C {REPO} worktree add -q {cw} HEAD")
        assert rc == 0, o
        try:
            ov = os.path.join(VERIF, "harness", "overlay")
            for root, _, fs in os.walk(ov):
                for fn in fs:
                    rel = os.path.relpath(os.path.join(root, fn), ov)
                    if fn.endswith(".go") and not fn.endswith("_test.go") and os.path.isdir(os.path.join(cw, os.path.dirname(rel))):
                        shutil.copy(os.path.join(root, fn), os.path.join(cw, rel))
            rc, o = run(["./check", pid], cwd=VERIF, timeout=3000, extra={"VERIF_COVER": cdir, "VERIF_REPO": cw})
        finally:
            run(f"git -C {REPO} worktree remove --force {cw}")
            shutil.rmtree(cw, ignore_errors=True)
        if rc != 0:
            print(o[-2000:])
            raise SystemExit("coverage run failed")
    cov = {}
    for f in glob.glob(cdir + "/*.out"):
        for l in open(f):
            m = re.match(r"(\S+):(\d+)\.\d+,(\d+)\.\d+ \d+ (\d+)", l)
            if not m or int(m.group(4)) == 0:
                continue
            fn = m.group(1)
            if fn.startswith(PREFIX):
                fn = fn[len(PREFIX):]
            s = cov.setdefault(fn, set())
            s.update(range(int(m.group(2)), int(m.group(3)) + 1))
    return cov


def anchor_sites(pid, files):
    rng, fnames = [], []
    for l in open(os.path.join(VERIF, "properties.jsonl")):
        p = json.loads(l)
        if p["id"] != pid:
            continue
        a = p["anchors"]
        allf = [f for f in a["files"] if f.endswith(".go")]
        for w in [x.get("where", "") for x in a.get("state", []) + a.get("mechanism", [])]:
            cur = None
            for seg in re.split(r"[;,]\s+(?=[A-Za-z/_.-]+\.go)|;", w):
                m = re.search(r"([A-Za-z0-9/_.-]+\.go)", seg)
                if m:
                    cand = [f for f in allf if f.endswith(m.group(1))]
                    cur = cand[0] if cand else None
                if not cur:
                    continue
                for a1, b1 in re.findall(r"(\d+)-(\d+)", seg):
                    rng.append((cur, int(a1), int(b1)))
                for a1 in re.findall(r":(\d+)(?![\d-])", seg):
                    rng.append((cur, int(a1), int(a1)))
                for n in re.findall(r"\b([A-Za-z_][A-Za-z0-9_]*(?:\.[A-Za-z_][A-Za-z0-9_]*)?)\b(?=[:,/ ]|$)", seg):
                    if not n.endswith(".go") and n not in ("vs", "and", "in", "set", "struct", "calls", "storage", "go"):
                        fnames.append((cur, n.split(".")[-1]))
    return rng, fnames


def main():
    pid = sys.argv[1]
    n = int(sys.argv[sys.argv.index("--n") + 1]) if "--n" in sys.argv else 20
    seed = int(sys.argv[sys.argv.index("--seed") + 1]) if "--seed" in sys.argv else 1
    files = None
    if "--files" in sys.argv:
        files = sys.argv[sys.argv.index("--files") + 1].split(",")
    if files is None:
        for l in open(os.path.join(VERIF, "properties.jsonl")):
            p = json.loads(l)
            if p["id"] == pid:
                files = [f for f in p["anchors"]["files"] if f.endswith(".go") and not f.endswith("_test.go")]
    gm = os.path.join(VERIF, "build", "gomutate")
    rc, o = run(["go", "build", "-o", gm, "."], cwd=os.path.join(VERIF, "tools", "gomutate"))
    assert rc == 0, o
    cov = covered_lines(pid)
    pool, stats = [], {}
    for f in files:
        if not os.path.exists(os.path.join(REPO, f)):
            continue
        rc, o = run([gm, "list", os.path.join(REPO, f)])
        ms = [json.loads(l) for l in o.splitlines() if l.startswith("{")]
        c = cov.get(f, set())
        srcl = open(os.path.join(REPO, f)).read().split("\n")
        keep = [dict(m, file=f) for m in ms if m["line"] in c and not SKIP.search(m["orig"])
                and "verif" not in srcl[m["line"] - 1]]
        stats[f] = {"mutants": len(ms), "on_executed_lines": len(keep)}
        pool += keep
    if "--anchors" in sys.argv:
        # keep only mutants inside the line ranges / functions the property's anchors name
        # (state[].where, mechanism[].where; ranges widened by 12 lines: fixes shifted the code a little)
        rng, fnames = anchor_sites(pid, files)
        def inside(m):
            for (f, a, b) in rng:
                if m["file"] == f and a - 12 <= m["line"] <= b + 12:
                    return True
            return any(m["func"] == n or m["func"].endswith("." + n) for (f, n) in fnames)
        before = len(pool)
        pool = [m for m in pool if inside(m)]
        print(f"[{pid}] --anchors: {len(pool)} of {before} executed-line mutants lie in anchored ranges/functions", flush=True)
    rnd = random.Random(seed * 7919 + int(pid[1:]))
    rnd.shuffle(pool)
    outp = os.path.join(VERIF, "mutation", f"{pid}.jsonl")
    prev = []
    if os.path.exists(outp):
        prev = [json.loads(l) for l in open(outp) if l.strip()]
    if "--recheck" in sys.argv:
        # re-run only the mutants recorded as silent (after a check was strengthened); detected ones are kept
        want = {(r["file"], r["id"]) for r in prev if not r["detected"]}
        pool = [m for m in pool if (m["file"], m["id"]) in want]
        prev = [r for r in prev if r["detected"]]
        n = len(pool)
    elif "--more" in sys.argv:
        have = {(r["file"], r["id"]) for r in prev}
        pool = [m for m in pool if (m["file"], m["id"]) not in have]
    else:
        prev = []
    # cap per file so that one big file does not take the whole sample
    cap = max(3, (2 * n) // max(1, len([f for f in stats if stats[f]["on_executed_lines"]])))
    wt = f"/tmp/mut-{pid.lower()}"
    run(f"git -C {REPO} worktree remove --force {wt}")
    shutil.rmtree(wt, ignore_errors=True)
    rc, o = run(f"git -C {REPO} worktree add -q {wt} HEAD")
    assert rc == 0, o
    os.makedirs(os.path.join(VERIF, "mutation"), exist_ok=True)
    done, perfile, recs = 0, {}, list(prev)
    if "--recheck" in sys.argv:
        cap = 10 ** 6
    head = run("git -C /repo log -1 --format=%h")[1].strip()
    try:
        for m in pool:
            if done >= n:
                break
            f = m["file"]
            if perfile.get(f, 0) >= cap:
                continue
            rc, mutated = run([gm, "apply", os.path.join(REPO, f), str(m["id"])])
            if rc != 0:
                continue
            open(os.path.join(wt, f), "w").write(mutated)
            md = module_of(f)
            pkg = "./" + os.path.relpath(os.path.dirname(f), md or ".")
            rc, o = run(["go", "build", pkg], cwd=os.path.join(wt, md), timeout=900)
            if rc != 0:
                run(f"git -C {wt} checkout -- .")
                continue
            perfile[f] = perfile.get(f, 0) + 1
            done += 1
            t = time.time()
            rc, o = run(["./check", pid], cwd=VERIF, timeout=1200, extra={"VERIF_REPO": wt})
            viol = [l for l in o.splitlines() if l.startswith("VIOLATION")]
            sigs = []
            for v in viol:
                mm = re.search(r"replay=(\S+)", v)
                if mm and os.path.exists(mm.group(1)):
                    try:
                        d = json.load(open(mm.group(1)))
                        sigs.append(str(d.get("sig") or d.get("broken"))[:120])
                    except Exception:
                        pass
                    try:
                        os.remove(mm.group(1))
                    except Exception:
                        pass
            rec = {k: m[k] for k in ("file", "line", "func", "kind", "orig", "repl", "id")}
            rec.update(detected=bool(viol) or rc != 0, check_exit=rc, sigs=sigs[:4], check_seconds=round(time.time() - t),
                       repo_head=head)
            if not rec["detected"]:
                rc, o = run(["go", "test", "-vet=off", "-count=1", "-timeout", "25m", pkg], cwd=os.path.join(wt, md), timeout=1700)
                rec["existing_tests"] = "pass" if rc == 0 else "fail"
            recs.append(rec)
            print(f"[{pid}] {done}/{n} #{m['id']} {f}:{m['line']} {m['kind']} `{m['orig'][:50]}` -> "
                  f"{'DETECTED' if rec['detected'] else 'silent, tests ' + rec['existing_tests']}", flush=True)
            run(f"git -C {wt} checkout -- .")
            with open(outp, "w") as fo:
                for r in recs:
                    fo.write(json.dumps(r) + "\n")
    finally:
        run(f"git -C {REPO} worktree remove --force {wt}")
        shutil.rmtree(wt, ignore_errors=True)
        run(f"git -C {REPO} worktree prune")
    det = sum(r["detected"] for r in recs)
    surv = [r for r in recs if not r["detected"] and r.get("existing_tests") == "pass"]
    print(f"[{pid}] SUMMARY mutants={len(recs)} detected={det} silent_killed_by_tests="
          f"{len(recs) - det - len(surv)} silent_survivors={len(surv)} pool={json.dumps(stats)}")


if __name__ == "__main__":
    main()
