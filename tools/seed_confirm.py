#!/usr/bin/env python3
"""Confirm a seeded property-breaking change produced by an independent agent and run our check on it.

usage: seed_confirm.py <seedout-dir>/<A|B> [--check]   (e.g. /tmp/seedout-c20/A)

Steps (all in a fresh scratch worktree of /repo, removed afterwards):
  1. demo passes on the pristine tree
  2. patch applies, module(s) build
  3. demo FAILS with the patch
  4. existing tests of the touched packages pass with the patch (compared with pristine on failure)
  5. (--check) VERIF_REPO=<worktree> ./check Cxx  -> does our check report a VIOLATION?
Result is stored as /verif/seeded/<Cxx>-<variant>/{patch.diff, demo, meta.json}.
"""
import json, os, re, shutil, subprocess, sys, tempfile

VERIF = os.path.dirname(os.path.dirname(os.path.abspath(__file__)))


def sh(cmd, cwd=None, timeout=3600, env=None):
    e = dict(os.environ)
    e["GOFLAGS"] = "-mod=mod"
    e["GOPROXY"] = "off"
    if env:
        e.update(env)
    p = subprocess.run(cmd, cwd=cwd, shell=True, env=e, timeout=timeout,
                       stdout=subprocess.PIPE, stderr=subprocess.STDOUT, text=True)
    return p.returncode, p.stdout


def module_of(wt, rel):
    d = os.path.dirname(os.path.join(wt, rel))
    while d.startswith(wt):
        if os.path.exists(os.path.join(d, "go.mod")):
            return d
        d = os.path.dirname(d)
    return wt


def main():
    src = sys.argv[1].rstrip("/")
    do_check = "--check" in sys.argv
    meta = json.load(open(os.path.join(src, "meta.json")))
    pid, var = meta["property"], meta["variant"]
    demo_files = [f for f in os.listdir(src) if f.endswith(".go")]
    m = re.match(r"(\S+?)/?(zz_seed_demo_test\.go)?(\s|$)", meta["demo_path_in_repo"])
    demo_dir = meta["demo_path_in_repo"].split()[0]
    if demo_dir.endswith(".go"):
        demo_dir = os.path.dirname(demo_dir)
    demo_dir = demo_dir.strip("/").lstrip("./")
    wt = tempfile.mkdtemp(prefix=f"sc-{pid}{var}-", dir="/tmp")
    os.rmdir(wt)
    res = {"confirmed_by_lead": {}}
    log = res["confirmed_by_lead"]
    try:
        rc, o = sh(f"git -C /repo worktree add -q {wt} HEAD")
        assert rc == 0, o
        for f in demo_files:
            shutil.copy(os.path.join(src, f), os.path.join(wt, demo_dir, f))
        mod = module_of(wt, os.path.join(demo_dir, "x.go"))
        pkg = "./" + os.path.relpath(os.path.join(wt, demo_dir), mod)
        names = []
        for f in demo_files:
            names += re.findall(r"^func (Test\w+)\(", open(os.path.join(src, f)).read(), re.M)
        demo_cmd = f"go test -tags verif -vet=off -count=1 -run '^({'|'.join(names)})$' {pkg}"
        if "test.root" in json.dumps(meta):
            demo_cmd += " -test.root"
        rc, o = sh(demo_cmd, cwd=mod)
        log["demo_pristine"] = "pass" if rc == 0 else "FAIL"
        log["demo_cmd"] = f"(cd <module {os.path.relpath(mod, wt)}>) {demo_cmd}"
        if rc != 0:
            log["demo_pristine_output"] = o[-2000:]
        rc, o = sh(f"git -C {wt} apply {src}/patch.diff")
        log["patch_applies"] = rc == 0
        if rc != 0:
            log["apply_output"] = o[-1000:]
        changed = meta.get("files_changed") or []
        mods = sorted({module_of(wt, f) for f in changed} | {mod})
        ok = True
        for md in mods:
            rc, o = sh("go build ./...", cwd=md)
            ok = ok and rc == 0
        log["builds"] = ok
        rc, o = sh(demo_cmd, cwd=mod)
        log["demo_with_patch"] = "pass" if rc == 0 else "fail"
        log["demo_with_patch_output"] = o[-1500:]
        # existing tests of touched packages (without the demo file)
        for f in demo_files:
            os.remove(os.path.join(wt, demo_dir, f))
        pk = {}
        for f in changed:
            if f.endswith("_test.go"):
                continue
            md = module_of(wt, f)
            p = "./" + os.path.relpath(os.path.dirname(os.path.join(wt, f)), md)
            rc, o = sh(f"go test -vet=off -count=1 {p}", cwd=md, timeout=3000)
            pk[f"{os.path.relpath(md, wt)}:{p}"] = "pass" if rc == 0 else "FAIL: " + o[-600:]
        log["existing_tests_with_patch"] = pk
        if do_check:
            rc, o = sh(f"./check {pid}", cwd=VERIF, env={"VERIF_REPO": wt}, timeout=3600)
            viol = [l for l in o.split("\n") if l.startswith("VIOLATION")]
            log["check_cmd"] = f"VERIF_REPO=<worktree with patch> ./check {pid}"
            log["check_exit"] = rc
            log["check_violation_lines"] = viol
            sigs = []
            for v in viol:
                mm = re.search(r"replay=(\S+)", v)
                if mm and os.path.exists(mm.group(1)):
                    try:
                        d = json.load(open(mm.group(1)))
                        sigs.append(d.get("sig") or str(d.get("broken")))
                        os.remove(mm.group(1))
                    except Exception:
                        pass
            log["check_sigs"] = sigs
            log["detected"] = bool(viol)
            log["check_tail"] = o[-800:]
        dst = os.path.join(VERIF, "seeded", f"{pid}-{var}")
        os.makedirs(dst, exist_ok=True)
        if os.path.abspath(src) != os.path.abspath(dst):
            shutil.copy(os.path.join(src, "patch.diff"), dst)
            for f in demo_files:
                shutil.copy(os.path.join(src, f), dst)
        rc_, base = sh("git -C /repo log -1 --format=%h")
        log["repo_head_when_confirmed"] = base.strip()
        meta.update(res)
        meta["breaks_property"] = pid
        json.dump(meta, open(os.path.join(dst, "meta.json"), "w"), indent=1)
        for k in ('demo_with_patch_output', 'check_tail', 'demo_pristine_output'):
            log.pop(k, None) if False else None
        brief = {k: v for k, v in log.items() if k not in ('demo_with_patch_output', 'check_tail', 'demo_pristine_output', 'check_violation_lines', 'demo_cmd')}
        print(json.dumps(brief))
    finally:
        sh(f"git -C /repo worktree remove --force {wt}")
        shutil.rmtree(wt, ignore_errors=True)


if __name__ == "__main__":
    main()
