#!/bin/bash
# Run every claimed check once (quick unless TIER=thorough) and summarise. usage: tools/runall.sh [ids...]
cd "$(dirname "$(readlink -f "$0")")/.."
TIER=${TIER:-quick}
IDS=${@:-$(python3 -c "import json;print(' '.join(c['property_id'] for c in json.load(open('MANIFEST.json'))['checks']))")}
mkdir -p build/runall
for id in $IDS; do
  s=$(date +%s)
  ./check $id --tier $TIER > build/runall/$id.log 2>&1
  rc=$?
  e=$(date +%s)
  echo "$id rc=$rc $((e-s))s $(grep -c '^VIOLATION' build/runall/$id.log) violations $(grep -c '^KNOWN-FINDING' build/runall/$id.log) known | $(tail -1 build/runall/$id.log | cut -c1-150)"
done
