#!/usr/bin/env python3
"""Re-run the CURRENT check on already confirmed seeded changes (seeded/<id>-<v>/patch.diff) and refresh
the check_* fields of their meta.json.   usage: seed_recheck.py C04-A C04-B ... | --all | --props C04,C10"""
import json, os, re, shutil, subprocess, sys, tempfile, glob
VERIF = os.path.dirname(os.path.dirname(os.path.abspath(__file__)))


def sh(cmd, cwd=None, env=None, timeout=3600):
    e = dict(os.environ); e["GOFLAGS"] = "-mod=mod"; e["GOPROXY"] = "off"
    if env: e.update(env)
    p = subprocess.run(cmd, cwd=cwd, shell=True, env=e, timeout=timeout, stdout=subprocess.PIPE, stderr=subprocess.STDOUT, text=True)
    return p.returncode, p.stdout


def one(name):
    d = os.path.join(VERIF, "seeded", name)
    meta = json.load(open(os.path.join(d, "meta.json")))
    pid = meta["property"]
    wt = tempfile.mkdtemp(prefix=f"sr-{name}-", dir="/tmp"); os.rmdir(wt)
    try:
        rc, o = sh(f"git -C /repo worktree add -q {wt} HEAD"); assert rc == 0, o
        patch = "patch_head.diff" if os.path.exists(os.path.join(d, "patch_head.diff")) else "patch.diff"
        rc, o = sh(f"git -C {wt} apply {d}/{patch}")
        if rc != 0:
            print(name, "PATCH DOES NOT APPLY on current HEAD:", o[-200:].replace("\n", " "))
            return None
        checks = [pid] + [p for p in meta.get("confirmed_by_lead", {}).get("also_detected_by", []) if p != pid]
        log = meta.setdefault("confirmed_by_lead", {})
        res = {}
        for c in checks:
            rc, o = sh(f"./check {c}", cwd=VERIF, env={"VERIF_REPO": wt})
            viol = [l for l in o.split("\n") if l.startswith("VIOLATION")]
            sigs = []
            for v in viol:
                mm = re.search(r"replay=(\S+)", v)
                if mm and os.path.exists(mm.group(1)):
                    try:
                        dd = json.load(open(mm.group(1)))
                        sigs.append(dd.get("sig") if dd.get("sig") != "broken" else "broken:" + ",".join(dd.get("broken") or []))
                        os.remove(mm.group(1))
                    except Exception:
                        pass
            res[c] = {"exit": rc, "detected": bool(viol), "sigs": sigs,
                      "no_failing_input": any("no-failing-input-found" in v for v in viol)}
        own = res[pid]
        log["check_exit"], log["check_sigs"], log["detected"] = own["exit"], own["sigs"], own["detected"]
        log["check_violation_lines"] = len(own["sigs"])
        log["rechecked"] = res
        log["repo_head_when_rechecked"] = sh("git -C /repo log -1 --format=%h")[1].strip()
        json.dump(meta, open(os.path.join(d, "meta.json"), "w"), indent=1)
        print(name, json.dumps({c: (r["detected"], r["sigs"][:3]) for c, r in res.items()}), flush=True)
        return own["detected"]
    finally:
        sh(f"git -C /repo worktree remove --force {wt}")
        shutil.rmtree(wt, ignore_errors=True)


def main():
    a = sys.argv[1:]
    allnames = sorted(os.path.basename(p) for p in glob.glob(os.path.join(VERIF, "seeded", "C*-*")))
    if a and a[0] == "--all":
        names = allnames
    elif a and a[0] == "--props":
        ps = a[1].split(",")
        names = [n for n in allnames if n.split("-")[0] in ps]
    else:
        names = a
    bad = [n for n in names if one(n) is not True]
    print("NOT DETECTED / NOT APPLICABLE:", bad)


main()
