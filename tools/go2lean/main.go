// go2lean: a deliberately small Go -> Lean 4 translator for PURE functions and constants.
//
// usage: go2lean -out <dir> <repo root> @<Area> <spec>... [@<Area2> <spec>...]
//   spec = <file>:<func>[:<leanName>]     function; func may be "Type.method"
//        | <file>:=<CONST>[:<leanName>]   package-level constant of the file's package
// One file <dir>/<Area>.lean is written per area.  A spec that cannot be translated is reported
// on stderr (`go2lean: <spec>: <reason>`), its definition is OMITTED from the output (so the
// theorem about it stops building and names it) and the exit status is 1; the other specs are
// still translated.
//
// The package of each file is parsed (non-test files, linux/amd64 build constraints) and
// type-checked with go/types.  Imports of "os", "syscall", "math", "io/fs", "strings", "path" are
// resolved by the standard library's source importer (offline, GOROOT sources); every other
// import is replaced by an empty stub package and the resulting type errors are ignored - but
// every expression the translator touches must have a valid type, else it is an error.
//
// Supported subset (anything else is an error, never a guess):
//   types      : int, int8..int64 -> Lean `Int` (unbounded: overflow NOT modelled, stated as a side
//                condition by the theorems where it matters); uint, uint8..uint64, uintptr and
//                named types over them (os.FileMode) -> Lean `Nat` (value assumed < 2^w; + * << and
//                unary ^ are reduced mod 2^w, - is modular, so the result is exact for inputs
//                < 2^w); bool -> `Bool`; string -> `String`; a struct of such fields -> fields
//                become parameters; []T of such -> `List`.
//   constants  : every expression go/types evaluates to a constant (named constants of the
//                package, os.ModeDir, syscall.S_IFDIR, math.MaxInt64, `4 << 20`, "a" + "b") is
//                emitted as its VALUE.
//   statements : x := e, var x T = e, var x T, x = e, x op= e, x++/x--, return e..., bare return
//                with named results, if / else if / else (with init), switch with and without
//                tag (multiple case values, default anywhere, no fallthrough),
//                `for _, x := range xs { ... }` without return/break/continue (-> List.foldl).
//   expressions: identifiers, literals, param.field(.field) reads, unary - ! ^,
//                + - * / % & | ^ &^ << >> (shift count constant), comparisons, && ||,
//                string + == !=, len(string), conversions between integer kinds of the same
//                signedness, strings.HasPrefix/HasSuffix, calls of functions translated in the same area.
// Names: parameters x0,x1,..; locals v0,v1,.. (declaration order); so renaming anything in the
// Go source changes nothing in the output.  Output is deterministic.
package main

import (
	"fmt"
	"go/ast"
	"go/build"
	"go/constant"
	"go/importer"
	"go/parser"
	"go/token"
	"go/types"
	"os"
	"path/filepath"
	"sort"
	"strings"
)

type trErr struct{ msg string }

func die(f string, a ...any) { panic(trErr{fmt.Sprintf(f, a...)}) }

// ---------------------------------------------------------------- packages

type pkgInfo struct {
	fset  *token.FileSet
	files map[string]*ast.File // by base name
	info  *types.Info
	pkg   *types.Package
}

var stdReal = map[string]bool{"os": true, "syscall": true, "math": true, "io/fs": true, "strings": true, "path": true}

type imp struct {
	src  types.Importer
	fake map[string]*types.Package
}

func (i *imp) Import(path string) (*types.Package, error) {
	if stdReal[path] {
		if p, err := i.src.Import(path); err == nil {
			return p, nil
		} else {
			fmt.Fprintf(os.Stderr, "go2lean: note: source importer failed for %s: %v\n", path, err)
		}
	}
	if p, ok := i.fake[path]; ok {
		return p, nil
	}
	name := path[strings.LastIndex(path, "/")+1:]
	if strings.HasPrefix(name, "v") && len(name) <= 3 && strings.Count(path, "/") > 0 { // .../v2
		pp := strings.TrimSuffix(path, "/"+name)
		name = pp[strings.LastIndex(pp, "/")+1:]
	}
	name = strings.ReplaceAll(strings.TrimPrefix(name, "go-"), "-", "_")
	p := types.NewPackage(path, name)
	p.MarkComplete()
	i.fake[path] = p
	return p, nil
}

var pkgCache = map[string]*pkgInfo{}
var theImporter *imp

func loadPkg(dir string) *pkgInfo {
	if p, ok := pkgCache[dir]; ok {
		return p
	}
	fset := token.NewFileSet()
	if theImporter == nil {
		build.Default.CgoEnabled = false
		build.Default.GOOS, build.Default.GOARCH = "linux", "amd64"
		theImporter = &imp{src: importer.ForCompiler(token.NewFileSet(), "source", nil), fake: map[string]*types.Package{}}
	}
	ents, err := os.ReadDir(dir)
	if err != nil {
		die("%v", err)
	}
	ctx := build.Default
	p := &pkgInfo{fset: fset, files: map[string]*ast.File{}}
	var files []*ast.File
	for _, e := range ents {
		n := e.Name()
		if !strings.HasSuffix(n, ".go") || strings.HasSuffix(n, "_test.go") {
			continue
		}
		if ok, _ := ctx.MatchFile(dir, n); !ok {
			continue
		}
		f, err := parser.ParseFile(fset, filepath.Join(dir, n), nil, 0)
		if err != nil {
			die("%v", err)
		}
		if len(files) > 0 && f.Name.Name != files[0].Name.Name {
			continue
		}
		p.files[n] = f
		files = append(files, f)
	}
	if len(files) == 0 {
		die("no Go files in %s", dir)
	}
	p.info = &types.Info{Types: map[ast.Expr]types.TypeAndValue{}, Defs: map[*ast.Ident]types.Object{}, Uses: map[*ast.Ident]types.Object{}}
	conf := types.Config{Importer: theImporter, Error: func(error) {}, FakeImportC: true}
	p.pkg, _ = conf.Check(files[0].Name.Name, fset, files, p.info)
	pkgCache[dir] = p
	return p
}

// ---------------------------------------------------------------- Lean types

type kind struct {
	k     string // "Int" "Nat" "Bool" "String" "Struct" "List"
	w     uint   // width for Nat
	elem  *kind
	names []string // struct field names
	flds  []*kind
}

func (k *kind) lean() string {
	switch k.k {
	case "Struct":
		var s []string
		for _, f := range k.flds {
			s = append(s, f.lean())
		}
		return "(" + strings.Join(s, " × ") + ")"
	case "List":
		return "(List " + k.elem.lean() + ")"
	}
	return k.k
}

func (k *kind) zero() string {
	switch k.k {
	case "Int", "Nat":
		return "(0 : " + k.k + ")"
	case "Bool":
		return "false"
	case "String":
		return "\"\""
	}
	die("no zero value for %s", k.lean())
	return ""
}

func kindOf(t types.Type) *kind {
	if t == nil {
		die("expression without a valid type (outside the type-checked subset)")
	}
	switch u := t.Underlying().(type) {
	case *types.Basic:
		switch u.Kind() {
		case types.Int, types.Int8, types.Int16, types.Int32, types.Int64, types.UntypedInt, types.UntypedRune:
			return &kind{k: "Int"}
		case types.Uint8:
			return &kind{k: "Nat", w: 8}
		case types.Uint16:
			return &kind{k: "Nat", w: 16}
		case types.Uint32:
			return &kind{k: "Nat", w: 32}
		case types.Uint, types.Uint64, types.Uintptr:
			return &kind{k: "Nat", w: 64}
		case types.Bool, types.UntypedBool:
			return &kind{k: "Bool"}
		case types.String, types.UntypedString:
			return &kind{k: "String"}
		}
	case *types.Struct:
		k := &kind{k: "Struct"}
		for i := 0; i < u.NumFields(); i++ {
			fk := kindOf(u.Field(i).Type())
			if fk.k == "Struct" || fk.k == "List" {
				die("nested struct field %s", u.Field(i).Name())
			}
			k.names = append(k.names, u.Field(i).Name())
			k.flds = append(k.flds, fk)
		}
		if len(k.flds) < 2 {
			die("struct with fewer than two fields")
		}
		return k
	case *types.Slice:
		return &kind{k: "List", elem: kindOf(u.Elem())}
	case *types.Pointer:
		die("pointer type %s", t)
	}
	die("unsupported type %s", t)
	return nil
}

func simpleStruct(t types.Type) (k *kind, ok bool) {
	defer func() {
		if r := recover(); r != nil {
			if _, is := r.(trErr); !is {
				panic(r)
			}
			k, ok = nil, false
		}
	}()
	if p, isp := t.Underlying().(*types.Pointer); isp {
		t = p.Elem()
	}
	if _, is := t.Underlying().(*types.Struct); !is {
		return nil, false
	}
	return kindOf(t), true
}

func leanString(s string) string {
	var b strings.Builder
	b.WriteByte('"')
	for _, r := range s {
		switch {
		case r == '"':
			b.WriteString("\\\"")
		case r == '\\':
			b.WriteString("\\\\")
		case r == '\n':
			b.WriteString("\\n")
		case r == '\t':
			b.WriteString("\\t")
		case r < 0x20 || r == 0x7f:
			fmt.Fprintf(&b, "\\x%02x", r)
		default:
			b.WriteRune(r)
		}
	}
	b.WriteByte('"')
	return b.String()
}

func leanChar(r rune) string {
	switch {
	case r == '\'':
		return "'\\''"
	case r == '\\':
		return "'\\\\'"
	case r == '\n':
		return "'\\n'"
	case r == '\t':
		return "'\\t'"
	case r < 0x20 || r == 0x7f:
		return fmt.Sprintf("'\\x%02x'", r)
	}
	return "'" + string(r) + "'"
}

func constLean(v constant.Value, k *kind) string {
	switch k.k {
	case "Int", "Nat":
		iv := constant.ToInt(v)
		if iv.Kind() != constant.Int {
			die("non-integer constant %s", v)
		}
		if k.k == "Nat" && constant.Sign(iv) < 0 {
			die("negative unsigned constant")
		}
		return "(" + iv.ExactString() + " : " + k.k + ")"
	case "Bool":
		if constant.BoolVal(v) {
			return "true"
		}
		return "false"
	case "String":
		return leanString(constant.StringVal(v))
	}
	die("constant of kind %s", k.k)
	return ""
}

// ---------------------------------------------------------------- function translation

type tr struct {
	p       *pkgInfo
	names   map[types.Object]string // parameters / locals
	kinds   map[types.Object]*kind
	paths   map[string]string // "obj.field.field" reads of non-simple struct params -> Lean name
	pathOrd []string
	pathK   map[string]*kind
	results []types.Object // named results (nil entries if unnamed)
	resK    []*kind
	funcs   map[string]string // Go function name (same package dir) -> Lean name, same area
	nparam  int
	nlocal  int
	ntmp    int
	dir     string
}

func (t *tr) typeOf(e ast.Expr) types.Type {
	tv, ok := t.p.info.Types[e]
	if !ok || tv.Type == nil || tv.Type == types.Typ[types.Invalid] {
		die("expression at %s has no valid type (uses something outside the type-checked subset)", t.p.fset.Position(e.Pos()))
	}
	return tv.Type
}

func (t *tr) obj(id *ast.Ident) types.Object {
	if o := t.p.info.Defs[id]; o != nil {
		return o
	}
	if o := t.p.info.Uses[id]; o != nil {
		return o
	}
	die("unresolved identifier %s", id.Name)
	return nil
}

func (t *tr) declLocal(o types.Object) string {
	if n, ok := t.names[o]; ok {
		return n
	}
	n := fmt.Sprintf("v%d", t.nlocal)
	t.nlocal++
	t.names[o] = n
	t.kinds[o] = kindOf(o.Type())
	return n
}

// selector path rooted at a parameter: returns root object and field names
func (t *tr) selPath(e ast.Expr) (types.Object, []string, bool) {
	switch x := e.(type) {
	case *ast.Ident:
		o := t.p.info.Uses[x]
		if o == nil {
			return nil, nil, false
		}
		if _, isVar := o.(*types.Var); !isVar {
			return nil, nil, false
		}
		return o, nil, true
	case *ast.SelectorExpr:
		o, p, ok := t.selPath(x.X)
		if !ok {
			return nil, nil, false
		}
		return o, append(p, x.Sel.Name), true
	case *ast.ParenExpr:
		return t.selPath(x.X)
	case *ast.StarExpr:
		return t.selPath(x.X)
	}
	return nil, nil, false
}

func (t *tr) expr(e ast.Expr) string {
	if tv, ok := t.p.info.Types[e]; ok && tv.Value != nil && tv.Type != nil {
		if _, isParen := e.(*ast.ParenExpr); !isParen {
			return constLean(tv.Value, kindOf(tv.Type))
		}
	}
	switch x := e.(type) {
	case *ast.ParenExpr:
		return "(" + t.expr(x.X) + ")"
	case *ast.Ident:
		if x.Name == "true" || x.Name == "false" {
			return x.Name
		}
		o := t.obj(x)
		if n, ok := t.names[o]; ok {
			if t.kinds[o].k == "Struct" && !strings.HasPrefix(n, "v") && !strings.HasPrefix(n, "e") {
				die("struct parameter %s used as a whole value", x.Name)
			}
			return n
		}
		die("identifier %s is neither a parameter, a local nor a constant", x.Name)
	case *ast.SelectorExpr:
		o, path, ok := t.selPath(x)
		if !ok {
			die("unsupported selector at %s", t.p.fset.Position(x.Pos()))
		}
		if n, isLocal := t.names[o]; isLocal && !strings.HasPrefix(n, "x?") && t.kinds[o].k == "Struct" && len(path) == 1 { // struct-valued local / loop var
			k := t.kinds[o]
			for i, fn := range k.names {
				if fn == path[0] {
					return proj(n, i, len(k.names))
				}
			}
		}
		key := fmt.Sprintf("%p", o) + "." + strings.Join(path, ".")
		if n, ok := t.paths[key]; ok {
			return n
		}
		die("field read %s is not rooted at a parameter", strings.Join(path, "."))
	case *ast.UnaryExpr:
		k := kindOf(t.typeOf(e))
		s := t.expr(x.X)
		switch x.Op {
		case token.SUB:
			if k.k != "Int" {
				die("unary - on %s", k.k)
			}
			return "(- " + s + ")"
		case token.ADD:
			return s
		case token.NOT:
			return "(!" + s + ")"
		case token.XOR:
			if k.k != "Nat" {
				die("unary ^ on signed integer")
			}
			return fmt.Sprintf("(%s - %s)", maxU(k.w), s)
		}
		die("unsupported unary %s", x.Op)
	case *ast.BinaryExpr:
		return t.binary(x.Op, x.X, x.Y, kindOf(t.typeOf(e)))
	case *ast.CallExpr:
		return t.call(x)
	case *ast.IndexExpr:
		// xs[c] with a constant index; an out-of-range index (a Go panic) is NOT modelled: the
		// translation yields `default`, theorems state the length hypothesis.
		tv := t.p.info.Types[x.Index]
		lk := kindOf(t.typeOf(x.X))
		if tv.Value == nil || lk.k != "List" {
			die("indexing is supported only as slice[constant]")
		}
		n, exact := constant.Uint64Val(constant.ToInt(tv.Value))
		if !exact {
			die("bad index")
		}
		return fmt.Sprintf("(List.getD %s %d default)", t.expr(x.X), n)
	}
	die("unsupported expression %T at %s", e, t.p.fset.Position(e.Pos()))
	return ""
}

func maxU(w uint) string { return fmt.Sprintf("(2 ^ %d - 1 : Nat)", w) }

func proj(n string, i, cnt int) string {
	s := n
	for j := 0; j < i; j++ {
		s += ".2"
	}
	if i < cnt-1 {
		s += ".1"
	}
	return s
}

func (t *tr) binary(op token.Token, X, Y ast.Expr, rk *kind) string {
	ok := kindOf(t.typeOf(X)) // operand kind
	l := t.expr(X)
	switch op {
	case token.SHL, token.SHR:
		tv := t.p.info.Types[Y]
		if tv.Value == nil {
			die("shift by a non-constant")
		}
		n, exact := constant.Uint64Val(constant.ToInt(tv.Value))
		if !exact || n > 63 {
			die("bad shift count")
		}
		if ok.k != "Nat" {
			die("shift of a signed non-constant")
		}
		if op == token.SHR {
			return fmt.Sprintf("(%s >>> %d)", l, n)
		}
		return fmt.Sprintf("((%s <<< %d) %% 2 ^ %d)", l, n, ok.w)
	}
	r := t.expr(Y)
	switch op {
	case token.ADD:
		if ok.k == "String" {
			return fmt.Sprintf("(%s ++ %s)", l, r)
		}
		if ok.k == "Nat" {
			return fmt.Sprintf("((%s + %s) %% 2 ^ %d)", l, r, ok.w)
		}
		return fmt.Sprintf("(%s + %s)", l, r)
	case token.SUB:
		if ok.k == "Nat" {
			return fmt.Sprintf("((%s + 2 ^ %d - %s) %% 2 ^ %d)", l, ok.w, r, ok.w)
		}
		return fmt.Sprintf("(%s - %s)", l, r)
	case token.MUL:
		if ok.k == "Nat" {
			return fmt.Sprintf("((%s * %s) %% 2 ^ %d)", l, r, ok.w)
		}
		return fmt.Sprintf("(%s * %s)", l, r)
	case token.QUO:
		if ok.k == "Nat" {
			return fmt.Sprintf("(%s / %s)", l, r)
		}
		return fmt.Sprintf("(Int.tdiv %s %s)", l, r)
	case token.REM:
		if ok.k == "Nat" {
			return fmt.Sprintf("(%s %% %s)", l, r)
		}
		return fmt.Sprintf("(Int.tmod %s %s)", l, r)
	case token.AND, token.OR, token.XOR, token.AND_NOT:
		if ok.k != "Nat" {
			die("bit operation %s on a signed non-constant", op)
		}
		switch op {
		case token.AND:
			return fmt.Sprintf("(%s &&& %s)", l, r)
		case token.OR:
			return fmt.Sprintf("(%s ||| %s)", l, r)
		case token.XOR:
			return fmt.Sprintf("(%s ^^^ %s)", l, r)
		}
		return fmt.Sprintf("(%s - (%s &&& %s))", l, l, r)
	case token.LSS, token.LEQ, token.GTR, token.GEQ:
		if ok.k != "Int" && ok.k != "Nat" {
			die("ordering on %s", ok.k)
		}
		o := map[token.Token]string{token.LSS: "<", token.LEQ: "≤", token.GTR: ">", token.GEQ: "≥"}[op]
		return fmt.Sprintf("(decide (%s %s %s))", l, o, r)
	case token.EQL, token.NEQ:
		if ok.k == "Struct" || ok.k == "List" {
			die("==/!= on %s", ok.k)
		}
		o := "=="
		if op == token.NEQ {
			o = "!="
		}
		return fmt.Sprintf("(%s %s %s)", l, o, r)
	case token.LAND:
		return fmt.Sprintf("(%s && %s)", l, r)
	case token.LOR:
		return fmt.Sprintf("(%s || %s)", l, r)
	}
	die("unsupported binary %s", op)
	return ""
}

func (t *tr) call(c *ast.CallExpr) string {
	// conversion?
	if tv, ok := t.p.info.Types[c.Fun]; ok && tv.IsType() {
		if len(c.Args) != 1 {
			die("bad conversion")
		}
		to, from := kindOf(tv.Type), kindOf(t.typeOf(c.Args[0]))
		a := t.expr(c.Args[0])
		switch {
		case to.k == "Int" && from.k == "Int":
			return a // overflow of signed narrowing NOT modelled
		case to.k == "Nat" && from.k == "Nat":
			if to.w >= from.w {
				return a
			}
			return fmt.Sprintf("(%s %% 2 ^ %d)", a, to.w)
		case to.k == from.k && (to.k == "String" || to.k == "Bool"):
			return a
		}
		die("conversion %s -> %s is outside the subset", from.lean(), to.lean())
	}
	switch f := c.Fun.(type) {
	case *ast.Ident:
		if f.Name == "len" && len(c.Args) == 1 {
			if _, isBuiltin := t.p.info.Uses[f].(*types.Builtin); isBuiltin {
				k := kindOf(t.typeOf(c.Args[0]))
				if k.k == "String" {
					return "(" + t.expr(c.Args[0]) + ".utf8ByteSize : Int)"
				}
				if k.k == "List" {
					return "(" + t.expr(c.Args[0]) + ".length : Int)"
				}
			}
		}
		if ln, ok := t.funcs[t.dir+":"+f.Name]; ok {
			var a []string
			for _, x := range c.Args {
				a = append(a, t.expr(x))
			}
			return "(" + ln + " " + strings.Join(a, " ") + ")"
		}
		die("call of %s (not translated in this area)", f.Name)
	case *ast.SelectorExpr:
		if id, ok := f.X.(*ast.Ident); ok {
			// method of a struct-valued local / loop variable, translated in the same area
			if o := t.p.info.Uses[id]; o != nil && len(c.Args) == 0 {
				if n, isLocal := t.names[o]; isLocal && !strings.HasPrefix(n, "x?") && t.kinds[o].k == "Struct" {
					if nt, isNamed := deref(o.Type()).(*types.Named); isNamed {
						if ln, ok := t.funcs[t.dir+":"+nt.Obj().Name()+"."+f.Sel.Name]; ok {
							var a []string
							for i := range t.kinds[o].names {
								a = append(a, proj(n, i, len(t.kinds[o].names)))
							}
							return "(" + ln + " " + strings.Join(a, " ") + ")"
						}
					}
				}
			}
			if pn, ok := t.p.info.Uses[id].(*types.PkgName); ok && pn.Imported().Path() == "strings" && len(c.Args) == 2 {
				a, b := t.expr(c.Args[0]), t.expr(c.Args[1])
				switch f.Sel.Name {
				case "HasPrefix":
					return fmt.Sprintf("(String.isPrefixOf %s %s)", b, a)
				case "HasSuffix":
					return fmt.Sprintf("(String.endsWith %s %s)", a, b)
				}
			}
		}
	}
	die("unsupported call at %s", t.p.fset.Position(c.Pos()))
	return ""
}

// ---- statements

func terminates(ss []ast.Stmt) bool {
	if len(ss) == 0 {
		return false
	}
	switch s := ss[len(ss)-1].(type) {
	case *ast.ReturnStmt:
		return true
	case *ast.BlockStmt:
		return terminates(s.List)
	case *ast.IfStmt:
		if s.Else == nil {
			return false
		}
		return terminates(s.Body.List) && terminates([]ast.Stmt{s.Else})
	case *ast.SwitchStmt:
		hasDef := false
		for _, c := range s.Body.List {
			cc := c.(*ast.CaseClause)
			if cc.List == nil {
				hasDef = true
			}
			if !terminates(cc.Body) {
				return false
			}
		}
		return hasDef
	}
	return false
}

func hasReturn(ss []ast.Stmt) bool {
	found := false
	for _, s := range ss {
		ast.Inspect(s, func(n ast.Node) bool {
			switch n.(type) {
			case *ast.ReturnStmt:
				found = true
			case *ast.FuncLit:
				return false
			}
			return true
		})
	}
	return found
}

// objects assigned (not declared) inside ss that were declared outside ss, in Lean-name order
func (t *tr) assigned(lists ...[]ast.Stmt) []types.Object {
	declared := map[types.Object]bool{}
	set := map[types.Object]bool{}
	mark := func(e ast.Expr) {
		for {
			switch x := e.(type) {
			case *ast.ParenExpr:
				e = x.X
				continue
			case *ast.SelectorExpr:
				e = x.X
				continue
			}
			break
		}
		if id, ok := e.(*ast.Ident); ok {
			if o := t.p.info.Uses[id]; o != nil && !declared[o] {
				set[o] = true
			}
		}
	}
	for _, ss := range lists {
		for _, s := range ss {
			ast.Inspect(s, func(n ast.Node) bool {
				switch x := n.(type) {
				case *ast.Ident:
					if o := t.p.info.Defs[x]; o != nil {
						declared[o] = true
					}
				case *ast.AssignStmt:
					for _, l := range x.Lhs {
						if id, ok := l.(*ast.Ident); ok && t.p.info.Defs[id] != nil {
							declared[t.p.info.Defs[id]] = true
							continue
						}
						mark(l)
					}
				case *ast.IncDecStmt:
					mark(x.X)
				}
				return true
			})
		}
	}
	var os_ []types.Object
	for o := range set {
		if _, ok := t.names[o]; !ok {
			die("assignment to %s which is not a local", o.Name())
		}
		os_ = append(os_, o)
	}
	sort.Slice(os_, func(i, j int) bool { return nameLess(t.names[os_[i]], t.names[os_[j]]) })
	return os_
}

func nameLess(a, b string) bool {
	if a[0] != b[0] {
		return a[0] < b[0]
	}
	if len(a) != len(b) {
		return len(a) < len(b)
	}
	return a < b
}

func (t *tr) tuple(os_ []types.Object) (string, string) { // (value, type)
	var v, ty []string
	for _, o := range os_ {
		v = append(v, t.names[o])
		ty = append(ty, t.kinds[o].lean())
	}
	if len(v) == 1 {
		return v[0], ty[0]
	}
	return "(" + strings.Join(v, ", ") + ")", "(" + strings.Join(ty, " × ") + ")"
}

// bind the components of a joined value back to the variables
func (t *tr) bindJoin(os_ []types.Object, val string, rest string) string {
	if len(os_) == 1 {
		return fmt.Sprintf("(let %s : %s := %s; %s)", t.names[os_[0]], t.kinds[os_[0]].lean(), val, rest)
	}
	_, ty := t.tuple(os_)
	j := fmt.Sprintf("j%d", t.ntmp)
	t.ntmp++
	s := fmt.Sprintf("(let %s : %s := %s; ", j, ty, val)
	for i, o := range os_ {
		s += fmt.Sprintf("let %s : %s := %s; ", t.names[o], t.kinds[o].lean(), proj(j, i, len(os_)))
	}
	return s + rest + ")"
}

type clause struct {
	cond string // "" = else
	body []ast.Stmt
}

// body translates a statement list.  fin == "" : every path must end in a return;
// fin != "" : no return allowed, the value of the list is fin (a tuple of variables).
func (t *tr) body(ss []ast.Stmt, fin string) string {
	if len(ss) == 0 {
		if fin == "" {
			die("function falls off the end (or a path without return)")
		}
		return fin
	}
	rest := ss[1:]
	switch s := ss[0].(type) {
	case *ast.BlockStmt:
		return t.body(append(append([]ast.Stmt{}, s.List...), rest...), fin)
	case *ast.EmptyStmt:
		return t.body(rest, fin)
	case *ast.ReturnStmt:
		if fin != "" {
			die("return inside a joined block")
		}
		var rs []string
		if len(s.Results) == 0 {
			for _, o := range t.results {
				if o == nil {
					die("bare return without named results")
				}
				rs = append(rs, t.names[o])
			}
		} else {
			if len(s.Results) != len(t.resK) {
				die("return of a multi-value call")
			}
			for _, r := range s.Results {
				rs = append(rs, t.expr(r))
			}
		}
		if len(rs) == 0 {
			die("function without results")
		}
		if len(rs) == 1 {
			return rs[0]
		}
		return "(" + strings.Join(rs, ", ") + ")"
	case *ast.DeclStmt:
		gd, ok := s.Decl.(*ast.GenDecl)
		if !ok || gd.Tok != token.VAR {
			die("unsupported declaration")
		}
		out, n := "", 0
		for _, sp := range gd.Specs {
			vs := sp.(*ast.ValueSpec)
			if len(vs.Values) != 0 && len(vs.Values) != len(vs.Names) {
				die("var with a multi-value initialiser")
			}
			for i, id := range vs.Names {
				o := t.p.info.Defs[id]
				k := kindOf(o.Type())
				val := ""
				if len(vs.Values) == 0 {
					val = k.zero()
				} else {
					val = t.expr(vs.Values[i])
				}
				out += fmt.Sprintf("(let %s : %s := %s; ", t.declLocal(o), k.lean(), val)
				n++
			}
		}
		return out + t.body(rest, fin) + strings.Repeat(")", n)
	case *ast.IncDecStmt:
		id, ok := s.X.(*ast.Ident)
		if !ok {
			die("++/-- on a non-variable")
		}
		o := t.obj(id)
		k := t.kinds[o]
		if k == nil || k.k != "Int" {
			die("++/-- on a non-int local")
		}
		op := "+"
		if s.Tok == token.DEC {
			op = "-"
		}
		return fmt.Sprintf("(let %s : Int := (%s %s (1 : Int)); %s)", t.names[o], t.names[o], op, t.body(rest, fin))
	case *ast.AssignStmt:
		if len(s.Lhs) != len(s.Rhs) {
			die("multi-value assignment")
		}
		// evaluate all right-hand sides first (Go semantics), then bind
		var vals []string
		for i := range s.Rhs {
			if s.Tok == token.ASSIGN || s.Tok == token.DEFINE {
				vals = append(vals, t.expr(s.Rhs[i]))
			} else {
				bop := map[token.Token]token.Token{token.ADD_ASSIGN: token.ADD, token.SUB_ASSIGN: token.SUB, token.MUL_ASSIGN: token.MUL,
					token.QUO_ASSIGN: token.QUO, token.REM_ASSIGN: token.REM, token.AND_ASSIGN: token.AND, token.OR_ASSIGN: token.OR,
					token.XOR_ASSIGN: token.XOR, token.SHL_ASSIGN: token.SHL, token.SHR_ASSIGN: token.SHR, token.AND_NOT_ASSIGN: token.AND_NOT}[s.Tok]
				if bop == 0 {
					die("unsupported assignment operator %s", s.Tok)
				}
				vals = append(vals, t.binary(bop, s.Lhs[i], s.Rhs[i], nil))
			}
		}
		if len(vals) > 1 {
			die("parallel assignment is outside the subset")
		}
		lhs := s.Lhs[0]
		switch l := lhs.(type) {
		case *ast.Ident:
			if l.Name == "_" {
				return t.body(rest, fin)
			}
			o := t.obj(l)
			var n string
			if s.Tok == token.DEFINE && t.p.info.Defs[l] != nil {
				n = t.declLocal(o)
			} else {
				var ok bool
				if n, ok = t.names[o]; !ok || strings.HasPrefix(n, "x") && t.kinds[o].k == "Struct" {
					die("assignment to %s", l.Name)
				}
			}
			return fmt.Sprintf("(let %s : %s := %s; %s)", n, t.kinds[o].lean(), vals[0], t.body(rest, fin))
		case *ast.SelectorExpr: // field of a struct-valued local
			id, ok := l.X.(*ast.Ident)
			if !ok {
				die("assignment to a nested field")
			}
			o := t.obj(id)
			k := t.kinds[o]
			n, isLocal := t.names[o]
			if !isLocal || k.k != "Struct" || !strings.HasPrefix(n, "v") {
				die("field assignment to a non-local struct")
			}
			var comps []string
			found := false
			for i, fn := range k.names {
				if fn == l.Sel.Name {
					comps = append(comps, vals[0])
					found = true
				} else {
					comps = append(comps, proj(n, i, len(k.names)))
				}
			}
			if !found {
				die("unknown field %s", l.Sel.Name)
			}
			return fmt.Sprintf("(let %s : %s := (%s); %s)", n, k.lean(), strings.Join(comps, ", "), t.body(rest, fin))
		}
		die("unsupported assignment target")
	case *ast.IfStmt:
		var pre []ast.Stmt
		var cls []clause
		cur := s
		for {
			if cur.Init != nil {
				if cur != s {
					die("else-if with an init statement")
				}
				pre = append(pre, cur.Init)
			}
			cls = append(cls, clause{cond: "?", body: cur.Body.List})
			if cur.Else == nil {
				break
			}
			if nx, ok := cur.Else.(*ast.IfStmt); ok {
				cur = nx
				continue
			}
			cls = append(cls, clause{cond: "", body: cur.Else.(*ast.BlockStmt).List})
			break
		}
		if len(pre) > 0 {
			s2 := *s
			s2.Init = nil
			return t.body(append([]ast.Stmt{pre[0], &s2}, rest...), fin)
		}
		// conditions are translated here (after a possible init has been bound)
		cur, i := s, 0
		for {
			cls[i].cond = t.expr(cur.Cond)
			i++
			nx, ok := cur.Else.(*ast.IfStmt)
			if !ok {
				break
			}
			cur = nx
		}
		return t.chain(cls, rest, fin)
	case *ast.SwitchStmt:
		if s.Init != nil {
			s2 := *s
			s2.Init = nil
			return t.body(append([]ast.Stmt{s.Init, &s2}, rest...), fin)
		}
		open, closeP := "", ""
		tag := ""
		if s.Tag != nil {
			tag = fmt.Sprintf("sw%d", t.ntmp)
			t.ntmp++
			open = fmt.Sprintf("(let %s : %s := %s; ", tag, kindOf(t.typeOf(s.Tag)).lean(), t.expr(s.Tag))
			closeP = ")"
		}
		var cls []clause
		var def *clause
		for _, c := range s.Body.List {
			cc := c.(*ast.CaseClause)
			for _, st := range cc.Body {
				if b, ok := st.(*ast.BranchStmt); ok {
					die("%s inside switch", b.Tok)
				}
			}
			if cc.List == nil {
				def = &clause{cond: "", body: cc.Body}
				continue
			}
			var cs []string
			for _, e := range cc.List {
				if tag != "" {
					cs = append(cs, fmt.Sprintf("(%s == %s)", tag, t.expr(e)))
				} else {
					cs = append(cs, t.expr(e))
				}
			}
			c0 := cs[0]
			for _, x := range cs[1:] {
				c0 = fmt.Sprintf("(%s || %s)", c0, x)
			}
			cls = append(cls, clause{cond: c0, body: cc.Body})
		}
		if def != nil {
			cls = append(cls, *def)
		}
		if len(cls) == 0 {
			return t.body(rest, fin)
		}
		if cls[0].cond == "" { // only a default clause
			return t.body(append(append([]ast.Stmt{}, cls[0].body...), rest...), fin)
		}
		return open + t.chain(cls, rest, fin) + closeP
	case *ast.RangeStmt:
		if s.Tok != token.DEFINE || s.Value == nil {
			die("unsupported range form")
		}
		if k, ok := s.Key.(*ast.Ident); !ok || k.Name != "_" {
			die("range with an index variable")
		}
		lk := kindOf(t.typeOf(s.X))
		if lk.k != "List" {
			die("range over a non-slice")
		}
		xs := t.expr(s.X)
		bad := false
		ast.Inspect(s.Body, func(n ast.Node) bool {
			switch n.(type) {
			case *ast.ReturnStmt, *ast.BranchStmt:
				bad = true
			}
			return true
		})
		if bad {
			die("return/break/continue inside a range loop")
		}
		vid := s.Value.(*ast.Ident)
		vo := t.p.info.Defs[vid]
		vn := fmt.Sprintf("e%d", t.ntmp)
		t.ntmp++
		t.names[vo] = vn
		t.kinds[vo] = lk.elem
		acc := t.assigned(s.Body.List)
		if len(acc) == 0 {
			die("range loop without effect")
		}
		av, aty := t.tuple(acc)
		an := fmt.Sprintf("a%d", t.ntmp)
		t.ntmp++
		inner := t.body(s.Body.List, av)
		fn := fmt.Sprintf("(fun (%s : %s) (%s : %s) => %s)", an, aty, vn, lk.elem.lean(), t.bindJoin(acc, an, inner))
		return t.bindJoin(acc, fmt.Sprintf("(List.foldl %s %s %s)", fn, av, xs), t.body(rest, fin))
	}
	die("unsupported statement %T at %s", ss[0], t.p.fset.Position(ss[0].Pos()))
	return ""
}

func (t *tr) chain(cls []clause, rest []ast.Stmt, fin string) string {
	if cls[len(cls)-1].cond != "" {
		cls = append(cls, clause{cond: "", body: nil})
	}
	noneRet := true
	for _, c := range cls {
		if hasReturn(c.body) {
			noneRet = false
		}
	}
	build := func(f func(c clause) string) string {
		s := f(cls[len(cls)-1])
		for i := len(cls) - 2; i >= 0; i-- {
			s = fmt.Sprintf("(if %s = true then %s else %s)", cls[i].cond, f(cls[i]), s)
		}
		return s
	}
	if noneRet {
		var lists [][]ast.Stmt
		for _, c := range cls {
			lists = append(lists, c.body)
		}
		acc := t.assigned(lists...)
		if len(acc) == 0 {
			die("if/switch without effect")
		}
		av, _ := t.tuple(acc)
		val := build(func(c clause) string { return t.body(c.body, av) })
		return t.bindJoin(acc, val, t.body(rest, fin))
	}
	if fin != "" {
		die("return inside a joined block")
	}
	return build(func(c clause) string {
		if terminates(c.body) {
			return t.body(c.body, "")
		}
		return t.body(append(append([]ast.Stmt{}, c.body...), rest...), "")
	})
}

// ---------------------------------------------------------------- driver

type spec struct {
	raw, file, name, lean string
	isConst               bool
}

func typeName(e ast.Expr) string {
	switch x := e.(type) {
	case *ast.Ident:
		return x.Name
	case *ast.StarExpr:
		return typeName(x.X)
	}
	return "?"
}

func (t *tr) addParam(o types.Object, params *[]string) {
	typ := o.Type()
	if sk, ok := simpleStruct(typ); ok {
		// struct of basic fields: every field, in declaration order
		for i, fn := range sk.names {
			n := fmt.Sprintf("x%d", t.nparam)
			t.nparam++
			t.paths[fmt.Sprintf("%p", o)+"."+fn] = n
			*params = append(*params, fmt.Sprintf("(%s : %s)", n, sk.flds[i].lean()))
		}
		t.names[o] = "x?" + o.Name()
		t.kinds[o] = sk
		return
	}
	if _, isStruct := deref(typ).Underlying().(*types.Struct); isStruct {
		t.names[o] = "x?" + o.Name()
		t.kinds[o] = &kind{k: "Struct"}
		return // fields are added on demand (scanPaths)
	}
	k := kindOf(typ)
	n := fmt.Sprintf("x%d", t.nparam)
	t.nparam++
	t.names[o] = n
	t.kinds[o] = k
	*params = append(*params, fmt.Sprintf("(%s : %s)", n, k.lean()))
}

func deref(t types.Type) types.Type {
	if p, ok := t.Underlying().(*types.Pointer); ok {
		return p.Elem()
	}
	return t
}

// field reads rooted at struct parameters that are not "simple": one parameter per distinct
// path, in order of first appearance
func (t *tr) scanPaths(body *ast.BlockStmt, roots map[types.Object]bool, params *[]string) {
	ast.Inspect(body, func(n ast.Node) bool {
		se, ok := n.(*ast.SelectorExpr)
		if !ok {
			return true
		}
		o, path, ok := t.selPath(se)
		if !ok || !roots[o] {
			return true
		}
		if _, isStruct := deref(t.typeOf(se)).Underlying().(*types.Struct); isStruct {
			return true // an intermediate struct; the full path is visited by the parent
		}
		key := fmt.Sprintf("%p", o) + "." + strings.Join(path, ".")
		if _, seen := t.paths[key]; !seen {
			k := kindOf(t.typeOf(se))
			nm := fmt.Sprintf("x%d", t.nparam)
			t.nparam++
			t.paths[key] = nm
			*params = append(*params, fmt.Sprintf("(%s : %s)", nm, k.lean()))
		}
		return false
	})
}

func translateFunc(repo string, sp spec, funcs map[string]string) string {
	dir := filepath.Dir(filepath.Join(repo, sp.file))
	p := loadPkg(dir)
	f := p.files[filepath.Base(sp.file)]
	if f == nil {
		die("file not found (or excluded by build constraints)")
	}
	var decl *ast.FuncDecl
	for _, d := range f.Decls {
		fd, ok := d.(*ast.FuncDecl)
		if !ok {
			continue
		}
		name := fd.Name.Name
		if fd.Recv != nil && len(fd.Recv.List) == 1 {
			name = typeName(fd.Recv.List[0].Type) + "." + name
		}
		if name == sp.name {
			decl = fd
		}
	}
	if decl == nil {
		die("function not found")
	}
	if decl.Body == nil || decl.Type.TypeParams != nil {
		die("function without body / generic function")
	}
	t := &tr{p: p, names: map[types.Object]string{}, kinds: map[types.Object]*kind{}, paths: map[string]string{},
		funcs: funcs, dir: filepath.Dir(sp.file)}
	var params []string
	roots := map[types.Object]bool{}
	add := func(fl *ast.FieldList) {
		if fl == nil {
			return
		}
		for _, fld := range fl.List {
			if len(fld.Names) == 0 {
				die("unnamed parameter")
			}
			for _, id := range fld.Names {
				if id.Name == "_" {
					die("blank parameter")
				}
				o := p.info.Defs[id]
				if o == nil || o.Type() == nil || o.Type() == types.Typ[types.Invalid] {
					die("parameter %s has no valid type", id.Name)
				}
				t.addParam(o, &params)
				if t.kinds[o].k == "Struct" && len(t.kinds[o].flds) == 0 {
					roots[o] = true
				}
			}
		}
	}
	if decl.Recv != nil && len(decl.Recv.List[0].Names) == 1 {
		add(decl.Recv)
	}
	add(decl.Type.Params)
	t.scanPaths(decl.Body, roots, &params)
	if decl.Type.Results == nil {
		die("no result")
	}
	var rty []string
	pre, npre := "", 0
	for _, fld := range decl.Type.Results.List {
		tt := p.info.Types[fld.Type].Type
		k := kindOf(tt)
		if k.k == "List" {
			die("result of type %s", k.lean())
		}
		cnt := len(fld.Names)
		if cnt == 0 {
			cnt = 1
		}
		for i := 0; i < cnt; i++ {
			rty = append(rty, k.lean())
			t.resK = append(t.resK, k)
			if len(fld.Names) > 0 {
				o := p.info.Defs[fld.Names[i]]
				n := fmt.Sprintf("r%d", len(t.results))
				t.names[o], t.kinds[o] = n, k
				t.results = append(t.results, o)
				pre += fmt.Sprintf("(let %s : %s := %s; ", n, k.lean(), k.zero())
				npre++
			} else {
				t.results = append(t.results, nil)
			}
		}
	}
	bodyS := pre + t.body(decl.Body.List, "") + strings.Repeat(")", npre)
	ps := strings.Join(params, " ")
	if ps != "" {
		ps = " " + ps
	}
	return fmt.Sprintf("\n/-- %s : %s (parameters in Go order) -/\ndef %s%s : %s :=\n  %s\n", sp.file, sp.name, sp.lean, ps, strings.Join(rty, " × "), bodyS)
}

func translateConst(repo string, sp spec) string {
	dir := filepath.Dir(filepath.Join(repo, sp.file))
	p := loadPkg(dir)
	if p.pkg == nil {
		die("package not type-checked")
	}
	c, ok := p.pkg.Scope().Lookup(sp.name).(*types.Const)
	if !ok {
		die("constant not found")
	}
	if c.Val() == nil || c.Val().Kind() == constant.Unknown {
		die("constant has no known value")
	}
	// the constant must be declared in the named file (a moved constant is still found: only the
	// package matters), so no position check here.
	k := kindOf(c.Type())
	out := fmt.Sprintf("\n/-- %s : const %s -/\ndef %s : %s := %s\n", filepath.Dir(sp.file), sp.name, sp.lean, k.lean(), constLean(c.Val(), k))
	if k.k == "String" {
		var cs []string
		for _, r := range constant.StringVal(c.Val()) {
			cs = append(cs, leanChar(r))
		}
		out += fmt.Sprintf("/-- the same constant as a character list -/\ndef %s_chars : List Char := [%s]\n", sp.lean, strings.Join(cs, ", "))
	}
	return out
}

func main() {
	if len(os.Args) < 6 || os.Args[1] != "-out" {
		fmt.Fprintln(os.Stderr, "usage: go2lean -out <dir> <repo> @<Area> <file>:<func>[:<leanName>]...")
		os.Exit(2)
	}
	outDir, repo := os.Args[2], os.Args[3]
	type area struct {
		name  string
		specs []spec
	}
	var areas []*area
	for _, a := range os.Args[4:] {
		if strings.HasPrefix(a, "@") {
			areas = append(areas, &area{name: a[1:]})
			continue
		}
		if len(areas) == 0 {
			fmt.Fprintln(os.Stderr, "go2lean: spec before @Area")
			os.Exit(2)
		}
		parts := strings.Split(a, ":")
		if len(parts) < 2 {
			fmt.Fprintln(os.Stderr, "go2lean: bad spec "+a)
			os.Exit(2)
		}
		sp := spec{raw: a, file: parts[0], name: parts[1]}
		if strings.HasPrefix(sp.name, "=") {
			sp.isConst, sp.name = true, sp.name[1:]
		}
		sp.lean = strings.ReplaceAll(sp.name, ".", "_")
		if len(parts) > 2 {
			sp.lean = parts[2]
		}
		areas[len(areas)-1].specs = append(areas[len(areas)-1].specs, sp)
	}
	failed := 0
	for _, ar := range areas {
		var b strings.Builder
		b.WriteString("/- GENERATED by tools/go2lean from the Go sources under /repo on every run of the checks\n")
		b.WriteString("   that use it; do not edit.  Semantics: signed integers = unbounded Int with Go's truncated\n")
		b.WriteString("   division (overflow not modelled); unsigned integers = Nat reduced mod 2^w where an operation\n")
		b.WriteString("   can overflow; constants are emitted as the values go/types computes. -/\n")
		ns := "SV.Gen"
		if ar.name != "Arith" { // the first area keeps the historical flat namespace
			ns += "." + ar.name
		}
		b.WriteString("namespace " + ns + "\n")
		funcs := map[string]string{}
		for _, sp := range ar.specs {
			out := ""
			func() {
				defer func() {
					if r := recover(); r != nil {
						e, ok := r.(trErr)
						if !ok {
							panic(r)
						}
						failed++
						fmt.Fprintf(os.Stderr, "go2lean: %s: %s\n", sp.raw, e.msg)
						out = fmt.Sprintf("\n-- NOT TRANSLATED: %s : %s (see the check log)\n", sp.file, sp.name)
					}
				}()
				if sp.isConst {
					out = translateConst(repo, sp)
				} else {
					out = translateFunc(repo, sp, funcs)
					funcs[filepath.Dir(sp.file)+":"+sp.name] = sp.lean
				}
			}()
			b.WriteString(out)
		}
		b.WriteString("\nend " + ns + "\n")
		if err := os.WriteFile(filepath.Join(outDir, ar.name+".lean"), []byte(b.String()), 0o644); err != nil {
			fmt.Fprintln(os.Stderr, "go2lean:", err)
			os.Exit(2)
		}
	}
	if failed > 0 {
		os.Exit(1)
	}
}
