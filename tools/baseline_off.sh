#!/bin/bash
# Runs the repository's pinned test suite with the verification guard OFF (no -tags verif)
# and compares the passing set with /root/.vp/BASELINE.json (stable_pass).
# usage: tools/baseline_off.sh [outdir]
OUT=${1:-$(mktemp -d)}
mkdir -p "$OUT"
export GOFLAGS=-mod=mod GOPROXY=off
for m in . ./cmd ./estargz ./ipfs; do
  (cd /repo/$m && go test -mod=mod -json -vet=off -count=1 -timeout 25m ./... ) > "$OUT/$(echo $m | tr -c 'a-z' _).gotest.json" 2>"$OUT/$(echo $m | tr -c 'a-z' _).err"
done
python3 - "$OUT" <<'PY'
import json,sys,glob
out=sys.argv[1]
passed,failed=set(),set()
for fn in glob.glob(out+"/*.gotest.json"):
    for line in open(fn,errors="replace"):
        line=line.strip()
        if not line.startswith("{"): continue
        try: ev=json.loads(line)
        except Exception: continue
        a=ev.get("Action"); t=ev.get("Test")
        if t is None or a not in ("pass","fail"): continue
        (passed if a=="pass" else failed).add(ev.get("Package","")+"::"+t)
passed-=failed
base=set(json.load(open("/root/.vp/BASELINE.json"))["stable_pass"])
missing=sorted(base-passed)
print(f"baseline stable_pass={len(base)} passed_now={len(passed)} failed_now={len(failed)} baseline_tests_not_passing={len(missing)}")
for m in missing[:40]: print("  MISSING", m)
sys.exit(1 if missing else 0)
PY
